CORE_NOTE = ("Trusted: tokio::sync::Semaphore, std::sync::Mutex and the atomics behave atomically and correctly (each shim call is one step); "
             "interleavings are sequentially consistent; injected panics unwind as a single step and only while no pool lock is held; "
             "bounds: the scenario list, preemption bound p and fault bound f reported in the evidence.")
claim("C01", "dpmc", "stateless model checking of the real pool: preemption/fault-bounded exhaustive schedule + environment exploration (dpmc)",
      "Every schedule (<= p preemptions), every manager/hook outcome assignment and every cancellation (<= f faults) of 2-3 actor scenarios on the real managed pool is executed; an independent object ledger (constructor/destructor log) is checked against max_size after every step and at every Manager::create entry.",
      CORE_NOTE, "DESIGN.md section 5 C01")
SEQ = "; sequential histories: every operation sequence up to the stated depth with every environment answer and abandonment"
claim("C02", "dpmc", "stateless model checking of the real pool: bounded exhaustive schedules/faults (H-conc) and operation histories (H-seq)",
      "All schedules/faults of the C01 scenarios plus 3-getter scenarios, and every history (depth 6/8) of gets, polls, gate completions, cancellations, returns, takes, retains on pools of size 1-2; stranded-waiter oracle at every step/quiescent point, panic and deadlock capture, and an end-of-history capacity probe through the public API only.",
      CORE_NOTE, "DESIGN.md section 5 C02")
claim("C03", "dpmc", "stateless model checking: every await point of get() x abandonment (dropped future, injected panic), H-conc and H-seq",
      "Managers/hooks suspend at every call by default; at each suspension of each get() the explorer tries abandonment (cancel, or a panic injected into the call) while other actors run (p<=2/3) and in every state reachable by a preceding history; detach/destructor ledger, exact status() at the next rest point, stranded-waiter oracle and capacity probe decide.",
      CORE_NOTE + " Enclosing-deadline abandonment is the same drop of the future (explored under C10 with a virtual clock).", "DESIGN.md section 5 C03")
claim("C04", "dpmc", "bounded exhaustive fault-sequence enumeration over operation histories of the real pool (H-seq)",
      "Every assignment of ok/error/delayed-ok/delayed-error (and panic for sync hooks) to the n-th call of create, recycle and each hook for 5 hook layouts (0-2 hooks per kind, sync/async orders), both queue modes, histories of depth 7/9; oracle = per-object ordered call log vs. the reference pipeline, result variants vs. injected errors, rejected objects destroyed+detached exactly once and never seen again.",
      CORE_NOTE, "DESIGN.md section 5 C04")
claim("C06", "dpmc", "stateless model checking: close() against every phase of every other operation (H-conc) and at every position of histories (H-seq)",
      "close() races with waiting/creating/recycling getters, returns, takes, resize, retain, a second close, and dropping every handle; histories with close anywhere. Oracle: gets started after close returned never yield an object, no waiter stays parked, is_closed stays true, status().max_size==0 and no idle object at every later rest point, objects outliving the pool drop without panic.",
      CORE_NOTE + " A getter that already held its slot when close() returned may finish either way (not covered by the statement).", "DESIGN.md section 5 C06")
claim("C07", "dpmc", "stateless model checking: resize histories (H-seq) and resize races (H-conc) against a limit-in-force reference",
      "Every history (depth 5-6/8) over gets, polls, returns, takes, cancels and resize(0..=3) from max_size 0/1/2, plus resize racing with returns, takes, getters, a waiter and another resize; oracle: max_size and idle count right after resize, admission of gets started after the resize vs. ground-truth live objects, waiters woken by a grow, capacity probe equal to the last target.",
      CORE_NOTE, "DESIGN.md section 5 C07")
claim("C08", "dpmc", "bounded exhaustive operation-history enumeration against a reference idle queue (H-seq)",
      "Every history (depth 6/8) of gets, returns in any order, takes, retains, resizes and rejected recycles for Fifo and Lifo; the first object each get() tries must be the reference queue's front/back, create only when the reference queue is exhausted, every manager/hook/destructor call attributed to a running pool operation, nothing during build.",
      CORE_NOTE + " Order is only defined for sequential histories; background threads would show up as unattributed calls.", "DESIGN.md section 5 C08")
claim("C09", "dpmc", "stateless model checking: retain/take histories with all predicates as explored choices (H-seq) and retain races (H-conc)",
      "Each predicate call is an explored binary choice (all subsets, stateful by construction); histories mix retain, take, gets, returns, resize, close; oracle: removed/retained vs. the predicate's answers in queue order, only idle objects offered, detach ledger (exactly once for every object the pool lets go of, never for kept ones), capacity probe.",
      CORE_NOTE, "DESIGN.md section 5 C09")
claim("C11", "dpmc", "stateless model checking with a status() observer after every transition",
      "status() is evaluated by the explorer after every scheduler step at which the slots lock is free (plausibility clauses) and compared exactly with ground truth at every rest point of every H-conc/H-seq execution of the C02 families plus resize/close/retain histories; status() is also interleaved as its own actor.",
      CORE_NOTE + " Weak-memory effects on the Relaxed counters are outside a sequentially consistent explorer.", "DESIGN.md section 5 C11")
claim("C13", "dpmc", "bounded exhaustive fault-sequence enumeration over operation histories (H-seq), metrics oracle",
      "The C04 runs with the metrics oracle: creation instant constant, recycle_count == earlier hand-outs, recycled None until first reuse and monotone, hooks/recycle see the pre-hand-out values, retain sees what Object::metrics() last showed.",
      CORE_NOTE, "DESIGN.md section 5 C13")
claim("C05", "dpmc", "stateless model checking of the real unmanaged pool: bounded exhaustive schedules (H-conc) and operation histories (H-seq)",
      "Identity-tagged objects with logged destruction; every schedule (p<=3/4, cancellations as faults) of get/try_get/timeout_get(0)/add/try_add/remove/try_remove/take/return scenarios on pools from new, from_config and From<Vec> (max_size 0-2), and every history of depth 6/8; oracle: each id in exactly one place, never destroyed while open, never handed out twice, pool never above max_size, try_add outcome vs. the range of fill levels during the call, exact status() and stranded get()/add() detection at every rest point, end probe.",
      CORE_NOTE, "DESIGN.md section 5 C05")
claim("C12", "dpmc", "stateless model checking: close() against every phase of every unmanaged operation (H-conc) and anywhere in histories (H-seq)",
      "Panics captured around every call; close() races with try_get/get/timeout_get(0)/remove/try_remove/add/try_add/take/return (p<=3/4) and appears at every position of histories of depth 6/8; after close returned: callers get Closed, add hands the object back, no object stays in the pool at any rest point, later returns are destroyed.",
      CORE_NOTE, "DESIGN.md section 5 C12")
