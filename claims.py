CORE_NOTE = ("Trusted: tokio::sync::Semaphore, std::sync::Mutex and the atomics behave atomically and correctly (each shim call is one step); "
             "interleavings are sequentially consistent; injected panics unwind as a single step and only while no pool lock is held; "
             "bounds: the scenario list, preemption bound p and fault bound f reported in the evidence.")
claim("C01", "dpmc", "stateless model checking of the real pool: preemption/fault-bounded exhaustive schedule + environment exploration (dpmc)",
      "Every schedule (<= p preemptions), every manager/hook outcome assignment and every cancellation (<= f faults) of 2-3 actor scenarios on the real managed pool is executed; an independent object ledger (constructor/destructor log) is checked against max_size after every step and at every Manager::create entry.",
      CORE_NOTE, "DESIGN.md section 5 C01")
