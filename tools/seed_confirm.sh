#!/bin/bash
# usage: seed_confirm.sh <ID> [name]  — confirms a seeded change in its scratch worktree /tmp/seed/<ID>
#  1. with the patch: demo fails, repository suite (without the demo) still 40 passed
#  2. without the patch: demo passes
# then copies patch + demo + notes into /verif/seeded/<name>/
set -u
ID=$1; NAME=${2:-$ID}; D=/tmp/seed/$ID
export CARGO_TARGET_DIR=$D/target CARGO_NET_OFFLINE=true
cd $D || exit 2
git stash list >/dev/null
# make sure the worktree has exactly the patch applied to library sources
git checkout -q -- $(git diff --name-only | grep -v '^tests/seed' ) 2>/dev/null
git apply seed.patch || { echo "patch does not apply"; exit 2; }
echo "== with patch: demo (expect failure)"; bash demo.sh >/tmp/seed/$ID.demo_with.log 2>&1; W=$?; echo "demo exit $W"
echo "== with patch: repository suite"; cargo nextest run --workspace --no-fail-fast --test-threads 8 --offline -E 'not binary(~seed)' 2>&1 | grep -E "^\s+Summary" | tee /tmp/seed/$ID.suite.log
# (the filter is an error when no test binary has "seed" in its name: run everything then)
if ! [ -s /tmp/seed/$ID.suite.log ]; then cargo nextest run --workspace --no-fail-fast --test-threads 8 --offline 2>&1 | grep -E "^\s+(Summary|FAIL)" | grep -v "deadpool-postgres::postgres" | sort -u | tee /tmp/seed/$ID.suite.log; fi
git apply -R seed.patch
echo "== without patch: demo (expect success)"; bash demo.sh >/tmp/seed/$ID.demo_without.log 2>&1; WO=$?; echo "demo exit $WO"
git apply seed.patch
mkdir -p /verif/seeded/$NAME
cp seed.patch /verif/seeded/$NAME/patch.diff
cp demo.sh notes.md /verif/seeded/$NAME/ 2>/dev/null
for f in $(git status --porcelain | grep '^??' | awk '{print $2}' | grep -v -E '\.log$|target|seed.patch|demo.sh|notes.md'); do mkdir -p /verif/seeded/$NAME/$(dirname $f); cp -r $f /verif/seeded/$NAME/$f; done
echo "with=$W without=$WO"
