#!/bin/bash
# usage: seed_try.sh <name> <PROP> [tier]  — applies /verif/seeded/<name>/patch.diff to /repo, runs the check, reverts
NAME=$1; PROP=$2; TIER=${3:-quick}
cd /repo && git apply /verif/seeded/$NAME/patch.diff || { echo "patch does not apply to /repo"; exit 2; }
mkdir -p /tmp/ev; cd /verif
VERIF_DIR=/tmp/ev ./check $PROP --tier $TIER 2>&1 | grep -E "VIOLATION|^  $PROP \[|quick:|thorough:|MACHINERY" | cut -c1-260
git -C /repo checkout -- .
git -C /repo status --short | head -3
