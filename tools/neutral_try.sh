#!/bin/bash
# usage: neutral_try.sh <patch> [props...] — applies a behaviour-preserving patch to /repo, runs the quick checks
# (all 19 by default), prints every VIOLATION / MACHINERY line and a summary per property, restores /repo.
P=$1; shift
PROPS=${@:-C01 C02 C03 C04 C05 C06 C07 C08 C09 C10 C11 C12 C13 C14 C15 C16 C17 C18 C19}
cd /repo && git apply "$P" || { echo "patch does not apply to /repo"; exit 2; }
mkdir -p /tmp/ev; cd /verif
for p in $PROPS; do
  VERIF_DIR=/tmp/ev ./check $p 2>&1 | grep -E "VIOLATION|MACHINERY|^  $p \[|quick:|error(\[|:)" | cut -c1-240
done
git -C /repo checkout -- .
git -C /repo status --short | head -3
