#!/usr/bin/env python3
"""Applies hand-written property-breaking edits to /repo one at a time, runs
the named checks (quick tier) and reports which of them raise VIOLATION.
Always restores /repo afterwards (git checkout)."""
import subprocess, sys, json, os, time

M = []
def m(name, path, old, new, props, note=""):
    M.append(dict(name=name, path=path, old=old, new=new, props=props, note=note))

MM='src/managed/mod.rs'
m("c01-permit-before-push", MM,
"""            slots.vec.push_back(inner);
            drop(slots);
            if add_permits {
                self.semaphore.add_permits(1);
            }
        } else {""",
"""            drop(slots);
            if add_permits {
                self.semaphore.add_permits(1);
            }
            self.slots.lock().unwrap().vec.push_back(inner);
        } else {""", ["C01","C02"])
m("c02-retain-forgets-permits", MM,
"""        guard.size -= removed.len();""",
"""        guard.size -= removed.len();
        for _ in 0..removed.len() {
            if let Ok(p) = self.inner.semaphore.try_acquire() {
                p.forget();
            }
        }""", ["C02","C09"])
m("c03-disarm-early", MM,
"""        let inner_obj = loop {
            let inner_obj = match self.inner.config.queue_mode {""",
"""        users_guard.disarm();
        let users_guard = DropGuard(|| {});
        let inner_obj = loop {
            let inner_obj = match self.inner.config.queue_mode {""", ["C03","C11","C02"])
m("c04-post-recycle-error-ignored", MM,
"""        if let Err(_e) = self.inner.hooks.post_recycle.apply(inner).await {
            // TODO log post_recycle error
            return Ok(None);
        }""",
"""        if let Err(_e) = self.inner.hooks.post_recycle.apply(inner).await {
            // TODO log post_recycle error
        }""", ["C04"])
m("c08-lifo-pops-front", MM,
"""                QueueMode::Lifo => self.inner.slots.lock().unwrap().vec.pop_back(),""",
"""                QueueMode::Lifo => self.inner.slots.lock().unwrap().vec.pop_front(),""", ["C08"])
m("c09-retain-no-detach", MM,
"""                let mut obj = guard.vec.remove(i).unwrap();
                self.manager().detach(&mut obj.obj);""",
"""                let obj = guard.vec.remove(i).unwrap();""", ["C09"])
m("c11-unready-drop-skips-size-on-panic", MM,
"""        if let Some(mut inner) = self.inner.take() {
            self.pool.slots.lock().unwrap().size -= 1;""",
"""        if let Some(mut inner) = self.inner.take() {
            if !std::thread::panicking() {
                self.pool.slots.lock().unwrap().size -= 1;
            }""", ["C11","C03"])
m("c13-count-before-post-hooks", MM,
"""        // Apply post_recycle hooks
        if let Err(_e) = self.inner.hooks.post_recycle.apply(inner).await {""",
"""        inner.metrics.recycle_count += 1;
        inner.metrics.recycle_count -= 0;
        // Apply post_recycle hooks
        if let Err(_e) = self.inner.hooks.post_recycle.apply(inner).await {""", ["C13"], "needs the later increment removed too")
m("c06-close-sem-after-resize-unlocked", MM,
"""        if close {
            self.inner.semaphore.close();
        } else if self.inner.semaphore.is_closed() {
            return;
        }""",
"""        if close {
            drop(slots);
            self.inner.semaphore.close();
            slots = self.inner.slots.lock().unwrap();
        } else if self.inner.semaphore.is_closed() {
            return;
        }""", ["C06"])
m("c07-grow-adds-max-size", MM,
"""            self.inner.semaphore.add_permits(additional - settled);""",
"""            self.inner.semaphore.add_permits(slots.max_size - settled);""", ["C07"])

UM='src/unmanaged/mod.rs'
m("c10-nonblocking-from-secs", MM,
"""            Some(t) => t.as_nanos() == 0,""",
"""            Some(t) => t.as_secs() == 0,""", ["C10"])
m("c10-recycle-timeout-kept", MM,
"""        .await
        .is_err()
        {
            return Ok(None);
        }""",
"""        .await
        .is_err_and(|e| !matches!(e, PoolError::Timeout(_)))
        {
            return Ok(None);
        }""", ["C10","C04"])
m("c10-unmanaged-timeout-zero-blocks", UM,
"""            (Some(timeout), _) if timeout.as_nanos() == 0 => {""",
"""            (Some(timeout), None) if timeout.as_nanos() == 0 => {""", ["C10"])
m("c05-permit-before-push", UM,
"""        {
            let mut queue = self.inner.queue.lock().unwrap();
            queue.push(object);
        }
        let _ = self.inner.available.fetch_add(1, Ordering::Relaxed);
        self.inner.semaphore.add_permits(1);""",
"""        self.inner.semaphore.add_permits(1);
        {
            let mut queue = self.inner.queue.lock().unwrap();
            queue.push(object);
        }
        let _ = self.inner.available.fetch_add(1, Ordering::Relaxed);""", ["C05","C12"])
m("c12-clear-before-close", UM,
"""        self.inner.semaphore.close();
        self.inner.size_semaphore.close();
        self.inner.clear();""",
"""        self.inner.clear();
        self.inner.semaphore.close();
        self.inner.size_semaphore.close();""", ["C12"])
m("c05-take-keeps-size-slot", UM,
"""            let _ = pool.size.fetch_sub(1, Ordering::Relaxed);
            pool.size_semaphore.add_permits(1);""",
"""            let _ = pool.size.fetch_sub(1, Ordering::Relaxed);""", ["C05"])

m("c14-drop-on-caller-when-uncontended", 'sync/src/lib.rs',
"""        let arc = self.obj.clone();
        #[cfg(deadpool_verif)]
        let arc = deadpool_runtime::verif::HookedStdMutex(arc);
        // Drop the `rusqlite::Connection` inside a `spawn_blocking`""",
"""        if let Ok(mut guard) = self.obj.try_lock() {
            drop(guard.take());
            return;
        }
        let arc = self.obj.clone();
        #[cfg(deadpool_verif)]
        let arc = deadpool_runtime::verif::HookedStdMutex(arc);
        // Drop the `rusqlite::Connection` inside a `spawn_blocking`""", ["C14"])
m("c14-interact-skips-lock-poison", 'sync/src/lib.rs',
"""                let mut guard = arc.lock().unwrap();""",
"""                let mut guard = arc.lock().unwrap_or_else(|e| e.into_inner());""", ["C14","C15"])
m("c15-sqlite-no-poison-check", 'sqlite/src/lib.rs',
"""        if conn.is_mutex_poisoned() {""",
"""        if false && conn.is_mutex_poisoned() {""", ["C15"])
m("c15-r2d2-ignores-has-broken", 'r2d2/src/manager.rs',
"""            if r2d2_manager.has_broken(obj) {""",
"""            if false && r2d2_manager.has_broken(obj) {""", ["C15"])
m("c15-diesel-ignores-broken-tx", 'diesel/src/manager.rs',
"""        if C::TransactionManager::is_broken_transaction_manager(conn) {""",
"""        if false && C::TransactionManager::is_broken_transaction_manager(conn) {""", ["C15"])

PC='postgres/src/config.rs'
m("c18-channel-binding-dropped", PC,
"""        if let Some(channel_binding) = self.channel_binding {
            cfg.channel_binding(channel_binding.into());
        }
""", "", ["C18"])
m("c18-ports-before-port", PC,
"""        if let Some(port) = self.port {
            cfg.port(port);
        }
        if let Some(ports) = &self.ports {
            for port in ports.iter() {
                cfg.port(*port);
            }
        }""",
"""        if let Some(ports) = &self.ports {
            for port in ports.iter() {
                cfg.port(*port);
            }
        }
        if let Some(port) = self.port {
            cfg.port(port);
        }""", ["C18"])
m("c18-empty-dbname-overrides", PC,
"""        if let Some(dbname) = self.dbname.as_ref().filter(|s| !s.is_empty()) {""",
"""        if let Some(dbname) = self.dbname.as_ref() {""", ["C18"])
m("c18-default-host-always", PC,
"""        if cfg.get_hosts().is_empty() {
            // Systems that support it default to unix domain sockets.""",
"""        if self.host.is_none() && self.hosts.is_none() {
            // Systems that support it default to unix domain sockets.""", ["C18"])

PL='postgres/src/lib.rs'
m("c16-cache-key-ignores-types-on-get", PL,
"""        let key = StatementCacheKey {
            query: Cow::Borrowed(query),
            types: Cow::Borrowed(types),
        };
        self.map.read().unwrap().get(&key).map(ToOwned::to_owned)""",
"""        let _ = types;
        self.map
            .read()
            .unwrap()
            .iter()
            .find(|(k, _)| k.query == query)
            .map(|(_, v)| v.to_owned())""", ["C16"])
m("c16-recycle-skips-is-closed", PL,
"""        if client.is_closed() {""",
"""        if false && client.is_closed() {""", ["C16"])
m("c16-detach-noop", PL,
"""        self.statement_caches.detach(&object.statement_cache);""",
"""        let _ = object;""", ["C16"])
m("c16-verified-skips-query", PC,
"""            Self::Verified => Some(""),""",
"""            Self::Verified => None,""", ["C16"])
m("c16-size-not-decremented-on-remove", PL,
"""        if removed.is_some() {
            let _ = self.size.fetch_sub(1, Ordering::Relaxed);
        }""",
"""        if removed.is_none() {
            let _ = self.size.fetch_sub(0, Ordering::Relaxed);
        }""", ["C16"])

RL='redis/src/lib.rs'
RC='redis/src/config.rs'
m("c17-echo-not-compared", RL,
"""        if n == ping_number {
            Ok(())""",
"""        if n == ping_number || !n.is_empty() {
            Ok(())""", ["C17"])
m("c17-ping-counter-stuck", RL,
"""        let ping_number = self.ping_number.fetch_add(1, Ordering::Relaxed).to_string();""",
"""        let ping_number = self.ping_number.load(Ordering::Relaxed).to_string();""", ["C17"])
m("c17-no-unwatch", RL,
"""            .cmd("UNWATCH")
            .ignore()
            .cmd("PING")""",
"""            .cmd("ECHO")
            .arg("x")
            .ignore()
            .cmd("PING")""", ["C17"])
m("c19-both-prefers-url", RC,
"""            (Some(_), Some(_)) => return Err(ConfigError::UrlAndConnectionSpecified),
        };
        let pool_config = self.get_pool_config();
        Ok(Pool::builder(manager).config(pool_config))
    }

    /// Returns [`deadpool::managed::PoolConfig`]""",
"""            (Some(url), Some(_)) => crate::Manager::new(url.as_str())?,
        };
        let pool_config = self.get_pool_config();
        Ok(Pool::builder(manager).config(pool_config))
    }

    /// Returns [`deadpool::managed::PoolConfig`]""", ["C19"])
m("c19-cluster-first-url-only", 'redis/src/cluster/config.rs',
"""                urls.iter().map(|url| url.as_str()).collect(),""",
"""                urls.iter().skip(1).map(|url| url.as_str()).chain(std::iter::once("redis://127.0.0.1:6379")).collect(),""", ["C19"])
m("c19-password-dropped-on-way-back", RC,
"""        Self {
            db: info.db,
            username: info.username,
            password: info.password,
            protocol,
        }
    }
}

#[derive(Debug)]""",
"""        Self {
            db: info.db,
            username: info.username,
            password: info.password.filter(|p| !p.is_empty()),
            protocol,
        }
    }
}

#[derive(Debug)]""", ["C19"])
m("c19-timeouts-skip-nanos", 'src/managed/config.rs',
"""    /// Timeout when waiting for a slot to become available.
    pub wait: Option<Duration>,""",
"""    /// Timeout when waiting for a slot to become available.
    #[cfg_attr(feature = "serde", serde(skip_serializing_if = "Option::is_none"))]
    pub wait: Option<Duration>,""", ["C19"])

RT='runtime/src/lib.rs'
# behind the spawn_blocking seam (the hook sits in front of this code): only the
# real-runtime scenario of C14 can see these
m("c14-spawn-blocking-inline", RT,
"""            Self::Tokio1 => tokio_1::task::spawn_blocking(f)
                .await
                .map_err(|e| SpawnBlockingError::Panic(e.into_panic())),""",
"""            Self::Tokio1 => tokio_1::task::block_in_place(|| std::panic::catch_unwind(std::panic::AssertUnwindSafe(f)))
                .map_err(SpawnBlockingError::Panic),""", ["C14"])
m("c14-background-job-inline", RT,
"""                drop(tokio_1::task::spawn_blocking(f));
                Ok(())""",
"""                f();
                Ok(())""", ["C14"])


m("c19-cluster-first-url-only", 'redis/src/cluster/config.rs',
"""                urls.iter().map(|url| url.as_str()).collect(),""",
"""                urls.iter().take(1).map(|url| url.as_str()).collect(),""", ["C19"])
m("c19-sentinel-last-connection-only", 'redis/src/sentinel/config.rs',
"""            (None, Some(connections)) => super::Manager::new(
                connections.clone(),""",
"""            (None, Some(connections)) => super::Manager::new(
                connections.iter().rev().take(1).cloned().collect::<Vec<_>>(),""", ["C19"])


def run(cmd, **kw):
    return subprocess.run(cmd, shell=True, capture_output=True, text=True, **kw)

def main():
    only = sys.argv[1:]
    results = {}
    for mu in M:
        if only and not any(o in mu["name"] for o in only):
            continue
        p = os.path.join("/repo", mu["path"])
        s = open(p).read()
        if s.count(mu["old"]) != 1:
            print("SKIP", mu["name"], "pattern count", s.count(mu["old"]))
            continue
        s2 = s.replace(mu["old"], mu["new"])
        if mu["name"] == "c13-count-before-post-hooks":
            s2 = s2.replace("""        inner.metrics.recycle_count += 1;
        #[cfg(not(target_arch""", """        #[cfg(not(target_arch""")
        open(p, "w").write(s2)
        try:
            for prop in mu["props"]:
                t = time.time()
                r = run("/verif/check %s --tier quick" % prop, env=dict(os.environ, VERIF_DIR="/tmp/ev"))
                v = [l for l in r.stdout.splitlines() if l.startswith("VIOLATION")]
                keys = [l.strip() for l in r.stderr.splitlines() if l.strip().startswith(prop + " [")]
                print("%-40s %s exit=%d %.0fs %s" % (mu["name"], prop, r.returncode, time.time() - t, [k[:160] for k in keys[:3]]), flush=True)
                if r.returncode == 2:
                    print(r.stderr[-1500:])
                results[(mu["name"], prop)] = r.returncode
        finally:
            run("git -C /repo checkout -- .")
    return 0

main()
