#!/bin/bash
# full regression: every seed against the check of its property
cd /verif
for d in seeded/C*/; do n=$(basename $d); p=$(python3 -c "import json;print(json.load(open('$d/meta.json'))['breaks_property'])"); 
  out=$(tools/seed_try.sh $n $p 2>&1); v=$(echo "$out" | grep -c "^VIOLATION"); m=$(echo "$out" | grep -c "MACHINERY-ERROR\|does not apply"); line=$(echo "$out" | grep -E "quick:" | sed 's/.*states, //' | cut -c1-60)
  echo "$n $p violations=$v machinery=$m $line"
done
