//! C15: a connection whose interaction panicked or that the backend reports
//! as broken is never reissued (sqlite, r2d2, diesel pools on SyncWrapper).
//!
//! One controller explores every history of gets, interactions (ok / panic /
//! cancelled), mark-broken and returns; blocking closures are run by the
//! controller (no schedule dimension here: C14 covers that).

use std::cell::RefCell;
use std::collections::BTreeMap;
use std::future::Future;
use std::hash::{Hash, Hasher};
use std::panic::{catch_unwind, AssertUnwindSafe};

use deadpool::managed::{Manager, Object, Pool, PoolError, Timeouts};
use deadpool_runtime::Runtime;
use deadpool_sync::SyncWrapper;
use dpmc::explorer::{self, choose_free, note_state, Outcome, Violation};
use dpmc::sched::{self, Task};
use dpmc::trace;

#[derive(Default)]
struct CW {
    viol: Vec<Violation>,
    next_serial: i64,
    poisoned: BTreeMap<i64, bool>,
    broken: BTreeMap<i64, bool>,
    destroyed: BTreeMap<i64, bool>,
    log: Vec<String>,
    /// diesel CustomFunction consults this set
    fail_check: std::collections::BTreeSet<i64>,
}

thread_local! {
    static C: RefCell<Option<CW>> = const { RefCell::new(None) };
}

/// Fresh world (serial numbers, diesel check set) for harnesses in other modules.
pub(crate) fn reset_world(on: bool) {
    C.with(|x| *x.borrow_mut() = if on { Some(CW::default()) } else { None });
}

fn c<R>(f: impl FnOnce(&mut CW) -> R) -> R {
    C.with(|x| f(x.borrow_mut().as_mut().expect("c15 world")))
}
fn try_c<R>(f: impl FnOnce(&mut CW) -> R) -> Option<R> {
    C.try_with(|x| x.try_borrow_mut().ok().and_then(|mut b| b.as_mut().map(f))).ok().flatten()
}
fn bad(w: &mut CW, key: &str, msg: String) {
    if !w.viol.iter().any(|v| v.key == key) {
        w.viol.push(Violation { property: "C15".into(), key: key.into(), msg });
    }
}
fn new_serial() -> i64 {
    c(|w| {
        w.next_serial += 1;
        w.next_serial
    })
}

/// Drives a future to completion, running queued blocking closures in
/// between. `None` if it can make no progress.
pub(crate) fn drive<T: 'static>(fut: impl Future<Output = T> + 'static) -> Option<T> {
    let mut t = Task::new(fut);
    for _ in 0..1000 {
        if let Some(v) = t.poll() {
            return Some(v);
        }
        if sched::run_jobs() == 0 && !t.woken() {
            return None;
        }
    }
    None
}

pub trait Backend: 'static {
    type M: Manager<Type = SyncWrapper<Self::Conn>> + 'static;
    type Conn: Send + 'static;
    #[allow(dead_code)]
    fn name() -> String;
    fn build(ms: usize, variant: usize) -> Pool<Self::M>;
    fn variants() -> usize {
        1
    }
    /// Reads the connection's serial, assigning one on first use.
    fn ident(conn: &mut Self::Conn) -> i64;
    /// Makes the backend report the connection as broken (None: not supported).
    fn mark_broken(conn: &mut Self::Conn, serial: i64, variant: usize) -> bool;
}

// ------------------------------------------------------------------ sqlite

pub struct Sqlite;

impl Backend for Sqlite {
    type M = deadpool_sqlite::Manager;
    type Conn = rusqlite::Connection;
    fn name() -> String {
        "sqlite".into()
    }
    fn build(ms: usize, _v: usize) -> Pool<Self::M> {
        let cfg = deadpool_sqlite::Config::new(":memory:");
        let mgr = deadpool_sqlite::Manager::from_config(&cfg, Runtime::Tokio1);
        Pool::builder(mgr).max_size(ms).build().unwrap()
    }
    fn ident(conn: &mut rusqlite::Connection) -> i64 {
        let v: i64 = conn.query_row("PRAGMA user_version", [], |r| r.get(0)).unwrap();
        if v != 0 {
            return v;
        }
        let s = new_serial();
        conn.execute_batch(&format!("PRAGMA user_version = {}", s)).unwrap();
        s
    }
    fn mark_broken(_conn: &mut rusqlite::Connection, _serial: i64, _v: usize) -> bool {
        false
    }
}

// ------------------------------------------------------------------ r2d2

#[derive(Debug)]
pub struct RConn {
    serial: i64,
    broken: bool,
    invalid: bool,
}

impl Drop for RConn {
    fn drop(&mut self) {
        let s = self.serial;
        let _ = try_c(|w| {
            w.destroyed.insert(s, true);
        });
    }
}

#[derive(Debug)]
pub struct RM;

#[derive(Debug)]
pub struct RErr;
impl std::fmt::Display for RErr {
    fn fmt(&self, f: &mut std::fmt::Formatter<'_>) -> std::fmt::Result {
        write!(f, "invalid")
    }
}
impl std::error::Error for RErr {}

impl r2d2::ManageConnection for RM {
    type Connection = RConn;
    type Error = RErr;
    fn connect(&self) -> Result<RConn, RErr> {
        Ok(RConn { serial: new_serial(), broken: false, invalid: false })
    }
    fn is_valid(&self, conn: &mut RConn) -> Result<(), RErr> {
        crate::c15c::note_check(conn.serial);
        // a validity check does I/O: other threads run meanwhile (a scheduling
        // point only where the closure is an actor, i.e. at thread level)
        dpmc::sched::pause("is_valid");
        if conn.invalid {
            Err(RErr)
        } else {
            Ok(())
        }
    }
    fn has_broken(&self, conn: &mut RConn) -> bool {
        crate::c15c::note_check(conn.serial);
        conn.broken
    }
}

pub struct R2d2;

impl Backend for R2d2 {
    type M = deadpool_r2d2::Manager<RM>;
    type Conn = RConn;
    fn name() -> String {
        "r2d2".into()
    }
    fn variants() -> usize {
        2
    }
    fn build(ms: usize, _v: usize) -> Pool<Self::M> {
        Pool::builder(deadpool_r2d2::Manager::new(RM, Runtime::Tokio1)).max_size(ms).build().unwrap()
    }
    fn ident(conn: &mut RConn) -> i64 {
        conn.serial
    }
    fn mark_broken(conn: &mut RConn, _serial: i64, v: usize) -> bool {
        if v == 0 {
            conn.broken = true;
        } else {
            conn.invalid = true;
        }
        true
    }
}

// ------------------------------------------------------------------ diesel

pub struct DieselSqlite;

fn diesel_serial(conn: &mut diesel::SqliteConnection) -> Option<i64> {
    use diesel::RunQueryDsl;
    diesel::select(diesel::dsl::sql::<diesel::sql_types::BigInt>("(SELECT serial FROM ident)")).get_result::<i64>(conn).ok()
}

impl Backend for DieselSqlite {
    type M = deadpool_diesel::Manager<diesel::SqliteConnection>;
    type Conn = diesel::SqliteConnection;
    fn name() -> String {
        "diesel".into()
    }
    fn variants() -> usize {
        // (recycling method, how a connection gets broken): each method with
        // its own failing check, and every method with a dangling transaction
        // (the backend's own "broken" report, which no method may override);
        // 6, 7: Fast / Verified with the transaction manager in its error state
        // (what a failed rollback leaves behind)
        8
    }
    fn build(ms: usize, v: usize) -> Pool<Self::M> {
        use deadpool_diesel::{ManagerConfig, RecyclingMethod};
        let method = match v {
            0 | 6 => RecyclingMethod::Fast,
            1 | 7 => RecyclingMethod::Verified,
            2 | 4 => RecyclingMethod::CustomQuery("SELECT 1 FROM ok_marker".into()),
            _ => RecyclingMethod::CustomFunction(Box::new(|conn: &mut diesel::SqliteConnection| {
                let s = diesel_serial(conn).unwrap_or(-1);
                crate::c15c::note_check(s);
                if c(|w| w.fail_check.contains(&s)) {
                    Err(deadpool_diesel::Error::Ping(diesel::result::Error::NotFound))
                } else {
                    Ok(())
                }
            })),
        };
        let mgr = deadpool_diesel::Manager::from_config(":memory:", Runtime::Tokio1, ManagerConfig { recycling_method: method });
        Pool::builder(mgr).max_size(ms).build().unwrap()
    }
    fn ident(conn: &mut diesel::SqliteConnection) -> i64 {
        use diesel::RunQueryDsl;
        if let Some(s) = diesel_serial(conn) {
            return s;
        }
        let s = new_serial();
        diesel::sql_query("CREATE TEMP TABLE ident(serial INTEGER)").execute(conn).unwrap();
        diesel::sql_query(format!("INSERT INTO ident VALUES ({})", s)).execute(conn).unwrap();
        diesel::sql_query("CREATE TEMP TABLE ok_marker(x INTEGER)").execute(conn).unwrap();
        s
    }
    fn mark_broken(conn: &mut diesel::SqliteConnection, serial: i64, v: usize) -> bool {
        use diesel::connection::{AnsiTransactionManager, TransactionManager};
        use diesel::RunQueryDsl;
        match v {
            0 | 1 | 4 | 5 => {
                // an open transaction left behind by the user
                AnsiTransactionManager::begin_transaction(conn).unwrap();
            }
            2 => {
                diesel::sql_query("DROP TABLE ok_marker").execute(conn).unwrap();
            }
            6 | 7 => {
                AnsiTransactionManager::transaction_manager_status_mut(conn).set_in_error();
            }
            _ => {
                c(|w| {
                    w.fail_check.insert(serial);
                });
            }
        }
        true
    }
}

// ------------------------------------------------------------------ driver

#[derive(Clone, Debug)]
pub struct C15Scenario {
    pub ms: usize,
    pub depth: usize,
}

fn get_one<B: Backend>(pool: &Pool<B::M>, nb: bool) -> Option<Result<Object<B::M>, String>> {
    let p = pool.clone();
    let r = catch_unwind(AssertUnwindSafe(|| {
        drive(async move {
            let t = if nb { Timeouts { wait: Some(std::time::Duration::ZERO), create: None, recycle: None } } else { Timeouts::new() };
            p.timeout_get(&t).await
        })
    }));
    match r {
        Err(p) => {
            c(|w| bad(w, "get-panicked", format!("get() panicked: {}", explorer::panic_msg(&p))));
            None
        }
        Ok(None) => {
            c(|w| bad(w, "get-stuck", "get() made no progress although a slot is free".into()));
            None
        }
        Ok(Some(Ok(o))) => Some(Ok(o)),
        Ok(Some(Err(e))) => Some(Err(match e {
            PoolError::Timeout(t) => format!("Timeout({:?})", t),
            PoolError::Closed => "Closed".into(),
            PoolError::NoRuntimeSpecified => "NoRuntimeSpecified".into(),
            PoolError::Backend(_) => "Backend".into(),
            PoolError::PostCreateHook(_) => "PostCreateHook".into(),
        })),
    }
}

/// Reads the serial of a checked-out connection through interact.
fn serial_of<B: Backend>(o: &Object<B::M>) -> Option<i64> {
    let w: &SyncWrapper<B::Conn> = o;
    // SAFETY-free trick: the interact future borrows `o`; drive it to completion here
    let mut t = Task::new(unsafe_static(w.interact(|conn| B::ident(conn))));
    for _ in 0..100 {
        if let Some(r) = t.poll() {
            return r.ok();
        }
        if sched::run_jobs() == 0 && !t.woken() {
            return None;
        }
    }
    None
}

/// Extends a future's lifetime to 'static; sound here because every caller
/// drives or drops the future before the borrowed object goes away.
pub(crate) fn unsafe_static<'a, T>(f: impl Future<Output = T> + 'a) -> std::pin::Pin<Box<dyn Future<Output = T> + 'static>> {
    let b: std::pin::Pin<Box<dyn Future<Output = T> + 'a>> = Box::pin(f);
    unsafe { std::mem::transmute(b) }
}

fn check_handout(serial: i64, reused_known: bool) {
    c(|w| {
        w.log.push(format!("get->{}", serial));
        if w.poisoned.get(&serial).copied().unwrap_or(false) {
            bad(w, "poisoned-connection-reissued", format!("connection {} on which a closure panicked was handed out again", serial));
        }
        if w.broken.get(&serial).copied().unwrap_or(false) {
            bad(w, "broken-connection-reissued", format!("connection {} which the backend reports as broken was handed out again", serial));
        }
        if w.destroyed.get(&serial).copied().unwrap_or(false) {
            bad(w, "destroyed-connection-reissued", format!("connection {} was destroyed but handed out", serial));
        }
        let _ = reused_known;
    });
}

pub fn run_c15<B: Backend>(sc: &C15Scenario) -> Outcome {
    sched::begin();
    sched::set_manual_blocking(true);
    C.with(|x| *x.borrow_mut() = Some(CW::default()));
    let variant = choose_free(B::variants());
    let pool = B::build(sc.ms, variant);
    let mut held: Vec<(Object<B::M>, i64)> = Vec::new();
    for _ in 0..sc.depth {
        if !c(|w| w.viol.is_empty()) {
            break;
        }
        // ops: 0 get, then per held j: ok / panic / cancelled-panic / mark-broken / return
        let mut ops: Vec<(u8, usize)> = Vec::new();
        if held.len() < sc.ms {
            ops.push((0, 0));
        }
        for j in 0..held.len() {
            ops.push((5, j)); // return
            ops.push((1, j)); // interact ok
            ops.push((2, j)); // interact panic
            ops.push((3, j)); // interact panic, future dropped before the closure ran
            ops.push((4, j)); // mark broken
        }
        if sched::pending_jobs() > 0 {
            ops.push((6, 0)); // the blocking pool gets around to the queued closures now
        }
        ops.push((9, 0)); // stop
        let (op, j) = ops[choose_free(ops.len())];
        explorer::count_step();
        match op {
            9 => break,
            0 => match get_one::<B>(&pool, true) {
                Some(Ok(o)) => match serial_of::<B>(&o) {
                    Some(s) => {
                        trace!("get -> connection {}", s);
                        check_handout(s, false);
                        held.push((o, s));
                    }
                    None => {
                        c(|w| bad(w, "handed-out-unusable-connection", "a connection handed out by get() cannot run a closure".into()));
                        drop(o);
                    }
                },
                Some(Err(e)) => c(|w| bad(w, "get-failed-with-free-slot", format!("get() with a free slot failed: {}", e))),
                None => {}
            },
            1 => {
                let (o, s) = &held[j];
                trace!("interact ok on {}", s);
                let w: &SyncWrapper<B::Conn> = o;
                let poisoned = c(|w| w.poisoned.get(s).copied().unwrap_or(false));
                let mut t = Task::new(unsafe_static(w.interact(|_c| 7u8)));
                let mut r = None;
                for _ in 0..100 {
                    if let Some(x) = t.poll() {
                        r = Some(x);
                        break;
                    }
                    if sched::run_jobs() == 0 && !t.woken() {
                        break;
                    }
                }
                c(|w| match r {
                    Some(Ok(7)) => {}
                    Some(Ok(_)) => bad(w, "interact-wrong-value", "interact returned a wrong value".into()),
                    Some(Err(_)) => {
                        if !poisoned {
                            bad(w, "interact-failed", "interact failed on a healthy connection".into());
                        }
                    }
                    None => bad(w, "interact-stuck", "interact made no progress".into()),
                });
            }
            2 | 3 => {
                let (o, s) = &held[j];
                trace!("interact panic on {} ({})", s, if op == 3 { "future dropped first" } else { "awaited" });
                let w: &SyncWrapper<B::Conn> = o;
                let mut t = Task::new(unsafe_static(w.interact(|_c| -> u8 { panic!("USER-PANIC") })));
                if op == 3 {
                    // the future is dropped while the closure is still queued on the
                    // blocking pool; it runs whenever the pool gets to it (op 6, or in
                    // FIFO order ahead of the next closure somebody waits for)
                    let _ = t.poll();
                    t.cancel();
                } else {
                    for _ in 0..100 {
                        if t.poll().is_some() {
                            break;
                        }
                        if sched::run_jobs() == 0 && !t.woken() {
                            break;
                        }
                    }
                }
                let s = *s;
                c(|w| {
                    w.poisoned.insert(s, true);
                    w.log.push(format!("panic@{}", s));
                });
            }
            4 => {
                let (o, s) = &held[j];
                let s = *s;
                let w: &SyncWrapper<B::Conn> = o;
                if c(|w| w.poisoned.get(&s).copied().unwrap_or(false) || w.broken.get(&s).copied().unwrap_or(false)) {
                    continue;
                }
                let mut t = Task::new(unsafe_static(w.interact(move |conn| B::mark_broken(conn, s, variant))));
                let mut r = None;
                for _ in 0..100 {
                    if let Some(x) = t.poll() {
                        r = Some(x);
                        break;
                    }
                    if sched::run_jobs() == 0 && !t.woken() {
                        break;
                    }
                }
                if let Some(Ok(true)) = r {
                    trace!("connection {} marked broken", s);
                    c(|w| {
                        w.broken.insert(s, true);
                        w.log.push(format!("broken@{}", s));
                    });
                }
            }
            5 => {
                let (o, s) = held.remove(j);
                trace!("return connection {}", s);
                c(|w| w.log.push(format!("return@{}", s)));
                drop(o);
            }
            _ => {
                trace!("blocking pool runs {} queued closures", sched::pending_jobs());
                sched::run_jobs();
            }
        }
        let mut h = std::collections::hash_map::DefaultHasher::new();
        c(|w| (&w.poisoned, &w.broken, w.log.len()).hash(&mut h));
        (held.iter().map(|x| x.1).collect::<Vec<_>>(), pool.status().size, pool.status().available, variant).hash(&mut h);
        note_state(h.finish());
    }
    // return everything, then the pool must serve its full capacity with healthy connections
    if c(|w| w.viol.is_empty()) {
        for (o, _) in held.drain(..) {
            drop(o);
            sched::run_jobs();
        }
        let mut got = Vec::new();
        for _ in 0..sc.ms {
            match get_one::<B>(&pool, true) {
                Some(Ok(o)) => match serial_of::<B>(&o) {
                    Some(s) => {
                        check_handout(s, true);
                        got.push(o);
                    }
                    None => c(|w| bad(w, "handed-out-unusable-connection", "a connection handed out by get() cannot run a closure".into())),
                },
                Some(Err(e)) => {
                    c(|w| bad(w, "capacity-lost", format!("after the history only {} of {} connections could be obtained: {}", got.len(), sc.ms, e)));
                    break;
                }
                None => break,
            }
        }
        if c(|w| w.viol.is_empty()) {
            match get_one::<B>(&pool, true) {
                Some(Err(e)) if e == "Timeout(Wait)" => {}
                Some(Ok(_)) => c(|w| bad(w, "capacity-exceeded", "more than max_size connections could be obtained".into())),
                other => {
                    let d = format!("{:?}", other.map(|r| r.map(|_| ())));
                    c(|w| bad(w, "probe-error", format!("unexpected probe result {}", d)))
                }
            }
        }
        drop(got);
        sched::run_jobs();
    }
    held.clear();
    sched::run_jobs();
    drop(pool);
    sched::run_jobs();
    let world = C.with(|x| x.borrow_mut().take()).unwrap();
    let mut h = std::collections::hash_map::DefaultHasher::new();
    (variant, &world.log).hash(&mut h);
    let mut violations = world.viol;
    if let Some(m) = sched::machinery_error() {
        violations.push(Violation { property: "MACHINERY".into(), key: "machinery".into(), msg: m });
    }
    sched::end();
    Outcome { obs: h.finish(), violations }
}
