//! C15, thread level: the user's closure is still running on the blocking
//! pool (its interact() future was dropped) while the connection is returned
//! and the next get() recycles it. Closures are coroutine actors (as in C14),
//! so a closure can hold the wrapper's mutex across scheduling points.

use std::cell::RefCell;
use std::hash::{Hash, Hasher};
use std::panic::{catch_unwind, AssertUnwindSafe};

use deadpool::managed::{Object, Pool, Timeouts};
use deadpool_sync::SyncWrapper;
use dpmc::explorer::{choose_free, note_state, Outcome, Violation};
use dpmc::sched::{self, RunCfg, Verdict};
use dpmc::trace;

use crate::c15::Backend;

#[derive(Default)]
struct T {
    viol: Vec<Violation>,
    /// serial -> the closure has made the connection bad (broken / poisoned)
    bad: std::collections::BTreeMap<i64, bool>,
    /// serial -> a validity check of the backend ran on the connection after
    /// it had gone bad (so recycling had the chance, and the duty, to notice)
    checked_after_bad: std::collections::BTreeSet<i64>,
    log: Vec<String>,
}

/// Called by the scripted backends whenever recycling consults them.
pub fn note_check(serial: i64) {
    let _ = TW.try_with(|x| {
        if let Ok(mut b) = x.try_borrow_mut() {
            if let Some(w) = b.as_mut() {
                if w.bad.get(&serial).copied().unwrap_or(false) {
                    w.checked_after_bad.insert(serial);
                }
            }
        }
    });
}

thread_local! {
    static TW: RefCell<Option<T>> = const { RefCell::new(None) };
}

fn t<R>(f: impl FnOnce(&mut T) -> R) -> R {
    TW.with(|x| f(x.borrow_mut().as_mut().expect("c15c world")))
}

fn bad(key: &str, msg: String) {
    t(|w| {
        if !w.viol.iter().any(|v| v.key == key) {
            w.viol.push(Violation { property: "C15".into(), key: key.into(), msg });
        }
    })
}

#[derive(Clone, Debug)]
pub struct C15cScenario {
    pub panic: bool,
}

fn ident<B: Backend>(o: &Object<B::M>) -> Option<i64> {
    let w: &SyncWrapper<B::Conn> = o;
    match sched::block_on(w.interact(|c| B::ident(c)), false) {
        Ok(Ok(s)) => Some(s),
        _ => None,
    }
}

pub fn run_c15c<B: Backend>(sc: &C15cScenario) -> Outcome {
    sched::begin();
    TW.with(|x| *x.borrow_mut() = Some(T::default()));
    crate::c15::reset_world(true);
    let variant = choose_free(B::variants());
    let pool: Pool<B::M> = B::build(1, variant);
    let panic = sc.panic;
    let p = pool.clone();
    sched::spawn("task", move || {
        let nb = Timeouts { wait: Some(std::time::Duration::ZERO), create: None, recycle: None };
        // 1. get a connection and learn its identity
        let c = match sched::block_on(p.timeout_get(&nb), false) {
            Ok(Ok(c)) => c,
            _ => {
                bad("first-get-failed", "the first get() on an empty pool failed".into());
                return;
            }
        };
        let Some(s) = ident::<B>(&c) else {
            bad("fresh-connection-unusable", "a fresh connection cannot run a closure".into());
            return;
        };
        trace!("task: holds connection {}", s);
        // 2. a user interaction that is slow and finally breaks the connection;
        //    its future may be dropped while the closure is queued or running
        {
            let w: &SyncWrapper<B::Conn> = &c;
            let r = catch_unwind(AssertUnwindSafe(|| {
                sched::block_on(
                    w.interact(move |conn| {
                        trace!("  user closure starts on connection {}", s);
                        sched::pause("user closure running");
                        if panic {
                            t(|w| {
                                w.bad.insert(s, true);
                                w.log.push(format!("panic@{}", s));
                            });
                            trace!("  user closure panics");
                            panic!("USER-PANIC");
                        }
                        if B::mark_broken(conn, s, variant) {
                            t(|w| {
                                w.bad.insert(s, true);
                                w.log.push(format!("broken@{}", s));
                            });
                            trace!("  user closure left connection {} broken", s);
                        }
                    }),
                    true,
                )
            }));
            match r {
                Ok(Ok(_)) => t(|w| w.log.push("interact-done".into())),
                Ok(Err(_)) => {
                    trace!("task: interaction abandoned");
                    t(|w| w.log.push("interact-abandoned".into()))
                }
                Err(_) => bad("interact-panicked-on-async-side", "interact() panicked on the async side".into()),
            }
        }
        // 3. return it, 4. get again
        trace!("task: returns connection {}", s);
        drop(c);
        sched::boundary();
        // connections that were already bad when the next get() starts
        let bad_before_get: Vec<i64> = t(|w| w.bad.iter().filter(|(_, b)| **b).map(|(k, _)| *k).collect());
        let c2 = match sched::block_on(p.timeout_get(&nb), false) {
            Ok(Ok(c2)) => c2,
            Ok(Err(_e)) => {
                bad("second-get-failed", "get() after the connection was returned failed".to_string());
                return;
            }
            Err(_) => return,
        };
        // judged at the moment get() hands the connection out
        let w2: &SyncWrapper<B::Conn> = &c2;
        // A closure that is still running can break the connection at any time,
        // even after the hand-out; what recycling must not do is hand out a
        // connection that was already bad when this get() started, or that a
        // validity check of this very recycle was run on after it had gone bad.
        let poisoned_now = w2.is_mutex_poisoned();
        let mut bad_serials: Vec<i64> = bad_before_get.clone();
        bad_serials.extend(t(|w| w.checked_after_bad.iter().copied().collect::<Vec<_>>()));
        if poisoned_now && bad_before_get.contains(&s) {
            bad("poisoned-connection-reissued", "get() handed out a connection whose mutex was already poisoned when the call started".into());
        } else if poisoned_now {
            t(|w| w.log.push("connection-poisoned-during-get".into()));
        } else {
            match ident::<B>(&c2) {
                Some(s2) => {
                    trace!("task: second get -> connection {}", s2);
                    t(|w| w.log.push(format!("get->{}", s2)));
                    if bad_serials.contains(&s2) {
                        bad("broken-connection-reissued", format!("connection {} had been broken by a closure before get() handed it out again", s2));
                    }
                }
                None => {
                    // it may have been poisoned by the late closure right after the hand-out: not a violation
                    t(|w| w.log.push("second-connection-went-bad-after-handout".into()));
                }
            }
        }
        drop(c2);
    });
    let verdict = sched::run(&RunCfg { horizon: 3000, cancels: true }, || {
        let mut h = std::collections::hash_map::DefaultHasher::new();
        t(|w| (w.log.len(), &w.bad).hash(&mut h));
        sched::sched_fingerprint().hash(&mut h);
        note_state(h.finish());
        t(|w| w.viol.is_empty()) && sched::machinery_error().is_none()
    });
    let mut machinery = sched::machinery_error();
    match &verdict {
        Verdict::Deadlock(d) => bad("deadlock", format!("deadlock: {}", d)),
        Verdict::Horizon => bad("livelock", "step horizon exceeded".into()),
        _ => {}
    }
    if !matches!(verdict, Verdict::Deadlock(_) | Verdict::Horizon) {
        let cascade = !t(|w| w.viol.is_empty()) || machinery.is_some();
        let saved = t(|w| w.viol.clone());
        let ok = sched::wind_down();
        if cascade {
            t(|w| w.viol = saved);
        } else if !ok {
            machinery = Some("wind-down incomplete".into());
        }
    }
    drop(pool);
    // whatever is still queued on the blocking pool runs now
    let _ = sched::wind_down();
    crate::c15::reset_world(false);
    let world = TW.with(|x| x.borrow_mut().take()).unwrap();
    let mut h = std::collections::hash_map::DefaultHasher::new();
    (variant, &world.log).hash(&mut h);
    let mut violations = world.viol;
    if let Some(m) = machinery {
        violations.push(Violation { property: "MACHINERY".into(), key: "machinery".into(), msg: m });
    }
    sched::end();
    Outcome { obs: h.finish(), violations }
}

// ---------------------------------------------------------------------
// Two gets at once: both connections of a pool of two are idle, one of them
// was left broken / invalid; two threads call get() at the same time, so the
// two recycling checks (blocking closures = actors) overlap.

pub fn run_c15_two_gets<B: Backend>() -> Outcome {
    sched::begin();
    TW.with(|x| *x.borrow_mut() = Some(T::default()));
    crate::c15::reset_world(true);
    let variant = choose_free(B::variants());
    let which = choose_free(2);
    let pool: Pool<B::M> = B::build(2, variant);
    let p = pool.clone();
    // set-up on the controller: blocking closures are run inline, nothing is
    // interleaved yet
    sched::set_manual_blocking(true);
    let nb = Timeouts { wait: Some(std::time::Duration::ZERO), create: None, recycle: None };
    let mut held: Vec<Object<B::M>> = Vec::new();
    for _ in 0..2 {
        let p2 = p.clone();
        match crate::c15::drive(async move { p2.timeout_get(&nb).await }) {
            Some(Ok(c)) => held.push(c),
            _ => bad("first-get-failed", "a get() on a pool with a free slot failed".into()),
        }
    }
    let mut bad_serial = -1i64;
    if held.len() == 2 {
        let w: &SyncWrapper<B::Conn> = &held[which];
        let r = crate::c15::drive(crate::c15::unsafe_static(w.interact(move |conn| {
            let s = B::ident(conn);
            if B::mark_broken(conn, s, variant) {
                s
            } else {
                -1
            }
        })));
        if let Some(Ok(s)) = r {
            bad_serial = s;
            if s >= 0 {
                t(|w| {
                    w.bad.insert(s, true);
                    w.log.push(format!("broken@{}", s));
                });
            }
        }
    }
    trace!("setup: connection {} left bad", bad_serial);
    // returned in both orders over the two values of `which`
    drop(held);
    sched::set_manual_blocking(false);
    drop(p);
    for name in ["task1", "task2"] {
        let p = pool.clone();
        sched::spawn(name, move || {
            let nb = Timeouts { wait: Some(std::time::Duration::ZERO), create: None, recycle: None };
            match sched::block_on(p.timeout_get(&nb), false) {
                Ok(Ok(c)) => {
                    let poisoned = {
                        let w: &SyncWrapper<B::Conn> = &c;
                        w.is_mutex_poisoned()
                    };
                    match ident::<B>(&c) {
                        Some(s2) => {
                            t(|w| w.log.push(format!("{} get->{}", name, s2)));
                            if s2 == bad_serial {
                                bad("broken-connection-reissued", format!("two gets at once: connection {} which the backend reports as broken / invalid was handed out again", s2));
                            }
                        }
                        None if poisoned => bad("poisoned-connection-reissued", "two gets at once: a poisoned connection was handed out".into()),
                        None => {}
                    }
                    // hold it until the other get has finished as well (capacity 2)
                    sched::pause("holding the connection");
                    drop(c);
                }
                Ok(Err(_)) => bad("capacity-lost", format!("two gets at once on a pool of two idle connections: {} failed", name)),
                Err(_) => {}
            }
        });
    }
    let verdict = sched::run(&RunCfg { horizon: 4000, cancels: false }, || {
        let mut h = std::collections::hash_map::DefaultHasher::new();
        t(|w| (w.log.len(), &w.bad).hash(&mut h));
        sched::sched_fingerprint().hash(&mut h);
        note_state(h.finish());
        t(|w| w.viol.is_empty()) && sched::machinery_error().is_none()
    });
    let mut machinery = sched::machinery_error();
    match &verdict {
        Verdict::Deadlock(d) => bad("deadlock", format!("deadlock: {}", d)),
        Verdict::Horizon => bad("livelock", "step horizon exceeded".into()),
        _ => {}
    }
    if !matches!(verdict, Verdict::Deadlock(_) | Verdict::Horizon) {
        let cascade = !t(|w| w.viol.is_empty()) || machinery.is_some();
        let saved = t(|w| w.viol.clone());
        let ok = sched::wind_down();
        if cascade {
            t(|w| w.viol = saved);
        } else if !ok {
            machinery = Some("wind-down incomplete".into());
        }
    }
    drop(pool);
    let _ = sched::wind_down();
    crate::c15::reset_world(false);
    let world = TW.with(|x| x.borrow_mut().take()).unwrap();
    let mut h = std::collections::hash_map::DefaultHasher::new();
    (variant, which, &world.log).hash(&mut h);
    let mut violations = world.viol;
    if let Some(m) = machinery {
        violations.push(Violation { property: "MACHINERY".into(), key: "machinery".into(), msg: m });
    }
    sched::end();
    Outcome { obs: h.finish(), violations }
}
