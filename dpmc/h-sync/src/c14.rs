//! C14: SyncWrapper keeps blocking work and destruction off the async thread.
//!
//! One task actor runs a history of interact calls and finally drops the
//! wrapper; every closure handed to `spawn_blocking` becomes its own actor
//! which the explorer may start at any time and in any order.

use std::cell::RefCell;
use std::hash::{Hash, Hasher};
use std::panic::{catch_unwind, AssertUnwindSafe};

use deadpool_runtime::Runtime;
use deadpool_sync::{InteractError, SyncWrapper};
use dpmc::explorer::{self, choose_free, note_state, Outcome, Violation};
use dpmc::sched::{self, ActorKind, RunCfg, Verdict};
use dpmc::trace;

#[derive(Default)]
struct SW {
    viol: Vec<Violation>,
    constructed: u32,
    destroyed: u32,
    in_closure: i32,
    closure_runs: u32,
    panics_done: u32,
    log: Vec<String>,
}

thread_local! {
    static S: RefCell<Option<SW>> = const { RefCell::new(None) };
}

fn s<R>(f: impl FnOnce(&mut SW) -> R) -> R {
    S.with(|c| f(c.borrow_mut().as_mut().expect("sync world")))
}

fn try_s<R>(f: impl FnOnce(&mut SW) -> R) -> Option<R> {
    S.try_with(|c| c.try_borrow_mut().ok().and_then(|mut b| b.as_mut().map(f))).ok().flatten()
}

fn bad(w: &mut SW, key: &str, msg: String) {
    if !w.viol.iter().any(|v| v.key == key) {
        w.viol.push(Violation { property: "C14".into(), key: key.into(), msg });
    }
}

fn on_blocking_actor() -> bool {
    match sched::current() {
        Some(i) => sched::actor_kind(i) == ActorKind::Blocking,
        None => false,
    }
}

fn whoami() -> String {
    match sched::current() {
        Some(i) => sched::actor_name(i),
        None => "controller".into(),
    }
}

struct Val;

impl Val {
    fn new() -> Val {
        let ok = on_blocking_actor();
        let me = whoami();
        s(|w| {
            w.constructed += 1;
            w.log.push(format!("construct@{}", me));
            if !ok {
                bad(w, "constructed-off-blocking-thread", format!("the wrapped value was created on {}", me));
            }
        });
        trace!("  value constructed on {}", me);
        Val
    }
}

impl Drop for Val {
    fn drop(&mut self) {
        let ok = on_blocking_actor();
        let me = whoami();
        let _ = try_s(|w| {
            w.destroyed += 1;
            w.log.push(format!("destroy@{}", me));
            if !ok {
                bad(w, "destroyed-off-blocking-thread", format!("the wrapped value was destroyed on {}", me));
            }
            if w.in_closure > 0 {
                bad(w, "destroyed-while-in-use", "the wrapped value was destroyed while a closure was still using it".into());
            }
            if w.destroyed > 1 {
                bad(w, "destroyed-twice", "destructor ran twice".into());
            }
        });
        trace!("  value destroyed on {}", me);
    }
}

struct InClosure;
impl Drop for InClosure {
    fn drop(&mut self) {
        let _ = try_s(|w| {
            w.in_closure -= 1;
            if std::thread::panicking() {
                w.panics_done += 1;
            }
        });
    }
}

fn closure_body(panic: bool) -> u32 {
    let ok = on_blocking_actor();
    let me = whoami();
    s(|w| {
        w.closure_runs += 1;
        w.in_closure += 1;
        w.log.push(format!("closure@{}", me));
        if !ok {
            bad(w, "closure-off-blocking-thread", format!("an interact() closure ran on {}", me));
        }
        if w.destroyed > 0 {
            bad(w, "closure-after-destruction", "a closure ran on a destroyed value".into());
        }
        if w.in_closure > 1 {
            bad(w, "closures-overlap", "two closures used the value at the same time".into());
        }
    });
    let _g = InClosure;
    trace!("  closure starts on {}", me);
    sched::pause("inside closure");
    if panic {
        trace!("  closure panics");
        panic!("CLOSURE-PANIC");
    }
    trace!("  closure ends");
    42
}

#[derive(Clone, Debug)]
pub struct C14Scenario {
    pub depth: usize,
    pub cancels: bool,
}

pub fn run_c14(sc: &C14Scenario) -> Outcome {
    sched::begin();
    S.with(|c| *c.borrow_mut() = Some(SW::default()));
    let depth = sc.depth;
    sched::spawn("task", move || {
        let w = match sched::block_on(SyncWrapper::new(Runtime::Tokio1, || Ok::<Val, ()>(Val::new())), false) {
            Ok(Ok(w)) => w,
            _ => {
                s(|w| bad(w, "new-failed", "SyncWrapper::new did not complete".into()));
                return;
            }
        };
        let mut w = Some(w);
        for _ in 0..depth {
            if sched::winding_down() {
                break;
            }
            // 0 interact ok, 1 interact panicking, 2 observe poison flag, 3 drop
            let op = choose_free(4);
            sched::boundary();
            if sched::winding_down() {
                break;
            }
            let Some(wr) = w.as_ref() else { break };
            match op {
                0 | 1 => {
                    let panic = op == 1;
                    trace!("task: interact({})", if panic { "panicking" } else { "ok" });
                    let r = catch_unwind(AssertUnwindSafe(|| sched::block_on(wr.interact(move |_v: &mut Val| closure_body(panic)), true)));
                    match r {
                        Ok(Ok(Ok(n))) => s(|w| {
                            w.log.push(format!("interact->{}", n));
                            if panic || n != 42 {
                                bad(w, "wrong-interact-result", format!("interact returned Ok({}) for a {} closure", n, if panic { "panicking" } else { "normal" }));
                            }
                        }),
                        Ok(Ok(Err(InteractError::Panic(_)))) => {
                            let now_poisoned = wr.is_mutex_poisoned();
                            s(|w| {
                                w.log.push("interact->Panic".into());
                                if !panic && w.panics_done == 0 {
                                    bad(w, "spurious-panic-error", "interact reported Panic although no closure panicked".into());
                                }
                                if !now_poisoned {
                                    bad(w, "not-poisoned-after-panic", "interact reported Panic but is_mutex_poisoned() is false".into());
                                }
                            });
                        }
                        Ok(Ok(Err(InteractError::Aborted))) => s(|w| {
                            w.log.push("interact->Aborted".into());
                            bad(w, "aborted-on-live-wrapper", "interact reported Aborted on a wrapper that was not dropped".into());
                        }),
                        Ok(Err(_cancelled)) => {
                            trace!("task: interact future dropped");
                            s(|w| w.log.push("interact-cancelled".into()));
                        }
                        Err(p) => s(|w| bad(w, "interact-panicked", format!("interact() itself panicked on the async side: {}", explorer::panic_msg(&p)))),
                    }
                }
                2 => {
                    let p = wr.is_mutex_poisoned();
                    s(|w| {
                        w.log.push(format!("poisoned={}", p));
                        if p && w.panics_done == 0 {
                            bad(w, "poisoned-without-panic", "is_mutex_poisoned() is true although no closure panicked".into());
                        }
                    });
                }
                _ => {
                    trace!("task: drop wrapper");
                    s(|w| w.log.push("drop".into()));
                    drop(w.take());
                }
            }
            // "from then on": once a panicking closure has finished the flag stays set
            if let Some(wr) = w.as_ref() {
                let p = wr.is_mutex_poisoned();
                s(|w| {
                    if w.panics_done > 0 && !p {
                        bad(w, "poison-flag-lost", "a closure panicked but is_mutex_poisoned() is false".into());
                    }
                });
            }
        }
        if let Some(wr) = w.take() {
            trace!("task: drop wrapper (end of history)");
            drop(wr);
        }
    });
    let verdict = sched::run(&RunCfg { horizon: 3000, cancels: sc.cancels }, || {
        let mut h = std::collections::hash_map::DefaultHasher::new();
        s(|w| (w.constructed, w.destroyed, w.in_closure, w.closure_runs, w.panics_done, w.log.len()).hash(&mut h));
        sched::sched_fingerprint().hash(&mut h);
        note_state(h.finish());
        s(|w| w.viol.is_empty()) && sched::machinery_error().is_none()
    });
    trace!("verdict {:?}", verdict);
    let mut machinery = sched::machinery_error();
    match &verdict {
        Verdict::Deadlock(d) => s(|w| bad(w, "deadlock", format!("deadlock: {}", d))),
        Verdict::Horizon => s(|w| bad(w, "livelock", "step horizon exceeded".into())),
        _ => {}
    }
    if !matches!(verdict, Verdict::Deadlock(_) | Verdict::Horizon) {
        let cascade = !s(|w| w.viol.is_empty()) || machinery.is_some();
        let saved = s(|w| w.viol.clone());
        let ok = sched::wind_down();
        if cascade {
            s(|w| w.viol = saved);
        } else {
            if !ok {
                machinery = Some("wind-down incomplete".into());
            }
            s(|w| {
                if w.constructed != 1 {
                    bad(w, "construct-count", format!("value constructed {} times", w.constructed));
                }
                if w.destroyed != 1 {
                    bad(w, "destructor-count", format!("destructor ran {} times by the time every blocking closure had finished", w.destroyed));
                }
            });
        }
    }
    // "keeps blocking work ... off the async thread": the async task never has
    // to wait for the value's lock (creating, running closures and destroying
    // all happen on blocking threads, which are the only ones that take it)
    let waited: Vec<String> = sched::lock_waits().into_iter().filter(|i| sched::actor_kind(*i) != ActorKind::Blocking).map(sched::actor_name).collect();
    if !waited.is_empty() {
        s(|w| bad(w, "async-thread-waited-for-value-lock", format!("{} had to wait for the wrapped value's lock while a closure was holding it", waited[0])));
    }
    let world = S.with(|c| c.borrow_mut().take()).unwrap();
    let mut violations = world.viol;
    let mut h = std::collections::hash_map::DefaultHasher::new();
    world.log.hash(&mut h);
    if let Some(m) = machinery {
        violations.push(Violation { property: "MACHINERY".into(), key: "machinery".into(), msg: m });
    }
    sched::end();
    Outcome { obs: h.finish(), violations }
}

// ---------------------------------------------------------------------
// The seam itself.  In `run_c14` the hook replaces what lies behind
// `Runtime::spawn_blocking*`; this scenario installs no hook at all, so the
// calls go to tokio's real blocking pool, and it checks the one thing that
// then does not depend on the schedule: *which thread* creates the value, runs
// the closures and destroys it (never the thread that awaits and drops the
// wrapper), that the destructor runs exactly once, and how a panic is reported.

struct RealVal {
    tx: std::sync::mpsc::Sender<(&'static str, std::thread::ThreadId)>,
}

impl Drop for RealVal {
    fn drop(&mut self) {
        let _ = self.tx.send(("destroy", std::thread::current().id()));
    }
}

pub fn run_c14_real_runtime() -> Outcome {
    use std::time::Duration;
    let mut viol: Vec<Violation> = Vec::new();
    let mut flag = |key: &str, msg: String| {
        if !viol.iter().any(|v| v.key == key) {
            viol.push(Violation { property: "C14".into(), key: key.into(), msg });
        }
    };
    // 0: current-thread runtime, 1: multi-thread runtime (the task is pinned to
    // the thread that calls block_on in both)
    let flavour = choose_free(2);
    // 0: closures complete, 1: the second closure panics, 2: wrapper dropped right after creation
    let history = choose_free(3);
    let rt = if flavour == 0 {
        tokio::runtime::Builder::new_current_thread().build().expect("runtime")
    } else {
        tokio::runtime::Builder::new_multi_thread().worker_threads(2).build().expect("runtime")
    };
    let (tx, rx) = std::sync::mpsc::channel::<(&'static str, std::thread::ThreadId)>();
    let me = std::thread::current().id();
    let tx2 = tx.clone();
    let ran = catch_unwind(AssertUnwindSafe(|| rt.block_on(async move {
        let txc = tx2.clone();
        let w = match SyncWrapper::new(Runtime::Tokio1, move || {
            let _ = txc.send(("create", std::thread::current().id()));
            Ok::<RealVal, ()>(RealVal { tx: txc })
        })
        .await
        {
            Ok(w) => w,
            Err(_) => return (vec!["new-failed".into()], None),
        };
        let mut res = Vec::new();
        if history != 2 {
            let t1 = tx2.clone();
            let r = w
                .interact(move |_v: &mut RealVal| {
                    let _ = t1.send(("closure", std::thread::current().id()));
                    7u32
                })
                .await;
            res.push(match r {
                Ok(7) => "ok".to_string(),
                Ok(n) => format!("ok:{}", n),
                Err(deadpool_sync::InteractError::Panic(_)) => "panic".into(),
                Err(deadpool_sync::InteractError::Aborted) => "aborted".into(),
            });
        }
        if history == 1 {
            let t2 = tx2.clone();
            let r = w
                .interact(move |_v: &mut RealVal| -> u32 {
                    let _ = t2.send(("closure", std::thread::current().id()));
                    // a real unwind without the panic hook's message on stderr
                    std::panic::resume_unwind(Box::new("USER-PANIC"))
                })
                .await;
            res.push(match r {
                Ok(_) => "ok".to_string(),
                Err(deadpool_sync::InteractError::Panic(_)) => "panic".into(),
                Err(deadpool_sync::InteractError::Aborted) => "aborted".into(),
            });
        }
        let poisoned = w.is_mutex_poisoned();
        drop(w);
        (res, Some(poisoned))
    })));
    let (res, poisoned): (Vec<String>, Option<bool>) = match ran {
        Ok(x) => x,
        Err(p) => {
            flag("interact-panicked", format!("SyncWrapper panicked on the async side (real tokio runtime, flavour {}, history {}): {}", flavour, history, explorer::panic_msg(&p)));
            (vec!["panicked".into()], None)
        }
    };
    drop(tx);
    // the destructor runs in the background: wait for it (generously)
    let mut events: Vec<(&'static str, std::thread::ThreadId)> = Vec::new();
    let deadline = std::time::Instant::now() + Duration::from_secs(60);
    loop {
        match rx.recv_timeout(Duration::from_millis(50)) {
            Ok(e) => {
                let done = e.0 == "destroy";
                events.push(e);
                if done {
                    // anything after the destructor (a second one?) arrives at once
                    while let Ok(e) = rx.recv_timeout(Duration::from_millis(20)) {
                        events.push(e);
                    }
                    break;
                }
            }
            Err(std::sync::mpsc::RecvTimeoutError::Disconnected) => break,
            Err(std::sync::mpsc::RecvTimeoutError::Timeout) => {
                if std::time::Instant::now() > deadline {
                    break;
                }
            }
        }
    }
    drop(rt);
    while let Ok(e) = rx.try_recv() {
        events.push(e);
    }
    let desc = format!("runtime flavour {} history {}", if flavour == 0 { "current-thread" } else { "multi-thread" }, history);
    for (what, tid) in &events {
        if *tid == me {
            flag(
                match *what {
                    "create" => "constructed-off-blocking-thread",
                    "closure" => "closure-off-blocking-thread",
                    _ => "destroyed-off-blocking-thread",
                },
                format!("{}: '{}' happened on the thread that awaits and drops the wrapper (real tokio blocking pool, no hook installed)", desc, what),
            );
        }
    }
    let creates = events.iter().filter(|e| e.0 == "create").count();
    let destroys = events.iter().filter(|e| e.0 == "destroy").count();
    if res.first().map(|s| s.as_str()) == Some("panicked") {
        // already flagged
    } else if res.first().map(|s| s.as_str()) == Some("new-failed") {
        flag("new-failed", format!("{}: SyncWrapper::new did not produce a wrapper", desc));
    } else {
        if creates != 1 {
            flag("construct-count", format!("{}: value constructed {} times", desc, creates));
        }
        if destroys != 1 {
            flag("destructor-count", format!("{}: destructor ran {} times within 60 s of dropping the wrapper", desc, destroys));
        }
        let expect: Vec<&str> = match history {
            0 => vec!["ok"],
            1 => vec!["ok", "panic"],
            _ => vec![],
        };
        if res.iter().map(|s| s.as_str()).collect::<Vec<_>>() != expect {
            flag("wrong-interact-result", format!("{}: interact results {:?}, expected {:?}", desc, res, expect));
        }
        if poisoned != Some(history == 1) {
            flag("poison-flag", format!("{}: is_mutex_poisoned() = {:?} after results {:?}", desc, poisoned, res));
        }
    }
    explorer::count_step();
    let mut h = std::collections::hash_map::DefaultHasher::new();
    (flavour, history, creates, destroys, &res).hash(&mut h);
    note_state(h.finish());
    Outcome { obs: h.finish(), violations: viol }
}
