//! dpmc-sync: checks C14 (SyncWrapper) and C15 (sqlite / r2d2 / diesel pools).
mod c14;
mod c15;
mod c15c;

use dpmc::report::{parse_args, run_check, CheckSpec, Scenario, Tier};
use serde_json::json;

/// Worker threads for scenarios on real SQLite connections: all of them by
/// default (with SQLite's allocation statistics switched off in `main` they
/// scale; with the statistics on, 16 workers were 4x *slower* than one - 130 s
/// of futex time for 14 428 executions).  `DPMC_SQLITE_THREADS` overrides.
fn sqlite_bound(mut sc: Scenario) -> Scenario {
    if let Some(n) = std::env::var("DPMC_SQLITE_THREADS").ok().and_then(|v| v.parse().ok()) {
        sc.threads = Some(n);
    }
    sc
}

fn spec_for(prop: &str, tier: Tier) -> Option<CheckSpec> {
    let thorough = tier == Tier::Thorough;
    let mut scenarios = Vec::new();
    let (rule, assumptions): (String, Vec<String>);
    match prop {
        "C14" => {
            for (depth, p) in if thorough { vec![(3usize, 1000u32), (4, 4), (5, 3), (6, 2)] } else { vec![(3usize, 4u32), (4, 3), (5, 2)] } {
                let sc = c14::C14Scenario { depth, cancels: true };
                scenarios.push(Scenario::new(
                    &format!("interact-histories/d{}/p{}", depth, p),
                    "one async task: every history of interact(ok) / interact(panicking) / poison observation / drop; each spawn_blocking closure is an actor the explorer starts and preempts freely; interact futures may be dropped before or while the closure runs",
                    p,
                    if thorough { 2 } else { 1 },
                    move || c14::run_c14(&sc),
                ));
            }
            scenarios.push(Scenario::new(
                "real-runtime-seam",
                "no hook installed: SyncWrapper on tokio's real blocking pool (current-thread and multi-thread runtime) x {closures complete, a closure panics, dropped right after creation}; the thread that creates the value, runs the closures and destroys it is never the thread that awaits and drops the wrapper; one construction, one destruction, Panic reported and poisoned",
                0,
                0,
                c14::run_c14_real_runtime,
            ));
            rule = "stateless DFS over operation histories (free choices), schedules of the task and blocking-closure actors (preemption bound p) and cancellations of interact futures (fault bound f); non-trivial = used a preemption or fault".into();
            assumptions = vec![
                "spawn_blocking is replaced by the harness: closures become coroutine actors that may start at any time and in any order (tokio's blocking pool is trusted to behave no worse)".into(),
                "creation completes (a cancelled SyncWrapper::new is outside the statement)".into(),
            ];
        }
        "C15" => {
            for ms in [1usize, 2] {
                let depth = if thorough { 10 } else if ms == 1 { 7 } else { 6 };
                let sc = c15::C15Scenario { ms, depth };
                let s1 = sc.clone();
                scenarios.push(sqlite_bound(Scenario::new(&format!("sqlite/ms{}", ms), "real rusqlite :memory: connections identified by PRAGMA user_version; histories of get / interact ok / panic / panic with dropped future / return", 0, 0, move || c15::run_c15::<c15::Sqlite>(&s1))));
                let s2 = sc.clone();
                scenarios.push(Scenario::new(&format!("r2d2/ms{}", ms), "scripted r2d2::ManageConnection; connections may be poisoned, marked has_broken or fail is_valid", 0, 0, move || c15::run_c15::<c15::R2d2>(&s2)));
                let s3 = c15::C15Scenario { ms, depth: if thorough { 9 } else if ms == 1 { 6 } else { 5 } };
                scenarios.push(sqlite_bound(Scenario::new(&format!("diesel-sqlite/ms{}", ms), "real diesel SqliteConnection :memory:; recycling methods Fast / Verified (open transaction), CustomQuery (failing query), CustomFunction (failing check); poisoned or broken connections", 0, 0, move || c15::run_c15::<c15::DieselSqlite>(&s3))));
            }
            scenarios.push(Scenario::new("two-gets-at-once/r2d2", "thread level: both connections of a pool of two are idle, one broken or invalid; two threads call get() at once, so the two recycling checks (blocking closures with a scheduling point inside is_valid) overlap", if thorough { 2 } else { 1 }, 0, c15c::run_c15_two_gets::<c15::R2d2>));
            if thorough {
            scenarios.push(sqlite_bound(Scenario::new("two-gets-at-once/diesel-sqlite", "same on the real diesel SqliteConnection pool, every recycling method and way of breaking", 1, 0, c15c::run_c15_two_gets::<c15::DieselSqlite>)));
            }
            for panic in [false, true] {
                let tag = if panic { "panics" } else { "breaks" };
                let p = if thorough { 4 } else { 3 };
                let sc = c15c::C15cScenario { panic };
                let s1 = sc.clone();
                scenarios.push(Scenario::new(&format!("late-closure/r2d2/{}", tag), "thread level: the user's closure (its future possibly dropped) is still queued or running on the blocking pool while the connection is returned and recycled by the next get(); closures are actors that can hold the wrapper's lock across scheduling points", p, 1, move || c15c::run_c15c::<c15::R2d2>(&s1)));
                let s2 = sc.clone();
                scenarios.push(sqlite_bound(Scenario::new(&format!("late-closure/diesel-sqlite/{}", tag), "same on the real diesel SqliteConnection pool, every recycling method", if thorough { 4 } else { 3 }, 1, move || c15c::run_c15c::<c15::DieselSqlite>(&s2))));
                if panic {
                    let s3 = sc.clone();
                    scenarios.push(sqlite_bound(Scenario::new("late-closure/sqlite/panics", "same on the real rusqlite pool (a panicking closure is the only way to break a connection there)", if thorough { 4 } else { 3 }, 1, move || c15c::run_c15c::<c15::Sqlite>(&s3))));
                }
            }
            rule = "every history (depth bound) over get / interact ok / interact panic / interact panic with dropped future / mark broken / return, every recycling method; distinct = distinct operation/result log".into();
            assumptions = vec![
                "blocking closures are run by the controller in FIFO order (schedules of the blocking pool are explored under C14)".into(),
                "rusqlite, diesel and r2d2 behave as documented; connections are in-memory SQLite databases".into(),
            ];
        }
        _ => return None,
    }
    Some(CheckSpec {
        property: prop.to_string(),
        level: "model_checking",
        rule,
        assumptions,
        bounds: json!({"tier": tier.name()}),
        scenarios,
    })
}

fn main() {
    // SQLite keeps allocation statistics behind one process-wide mutex; they
    // are of no use here and serialise the workers.  Must precede any other
    // SQLite call.
    if std::env::var_os("DPMC_SQLITE_MEMSTATUS").is_none() {
        unsafe {
            rusqlite::ffi::sqlite3_config(rusqlite::ffi::SQLITE_CONFIG_MEMSTATUS, 0i32);
        }
    }
    let args = parse_args();
    match spec_for(args.spec.as_deref().unwrap_or(&args.property), args.tier) {
        Some(mut s) => {
            s.property = args.property.clone();
            run_check(&args, s)
        }
        None => {
            eprintln!("unknown property {}", args.property);
            std::process::exit(2);
        }
    }
}
