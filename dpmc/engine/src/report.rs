//! Command line front end shared by all harness binaries: runs the scenarios
//! of one property, applies the known-findings list, writes the evidence file
//! and replay artefacts, prints `VIOLATION` / `KNOWN-FINDING:` lines.

use std::collections::BTreeMap;
use std::time::{Duration, Instant};

use serde_json::{json, Value};

use crate::explorer::{self, Config, Found, Outcome, Stats};

pub type RunFn = Box<dyn Fn() -> Outcome + Sync + Send>;

pub struct Scenario {
    pub name: String,
    pub about: String,
    pub p: u32,
    pub f: u32,
    pub run: RunFn,
    /// Runs once, single-threaded, before the scenario is explored (e.g. to
    /// set process-wide state such as environment variables).
    pub setup: Option<Box<dyn Fn() + Sync + Send>>,
    /// Worker threads for this scenario (None = default). Scenarios that
    /// observe process-wide state run with one.
    pub threads: Option<usize>,
    /// Breadth-first reachability to closure instead of depth-first search.
    pub bfs: bool,
}

impl Scenario {
    pub fn new(name: &str, about: &str, p: u32, f: u32, run: impl Fn() -> Outcome + Sync + Send + 'static) -> Self {
        Scenario {
            name: name.to_string(),
            about: about.to_string(),
            p,
            f,
            run: Box::new(run),
            setup: None,
            threads: None,
            bfs: false,
        }
    }
}

pub struct CheckSpec {
    pub property: String,
    pub level: &'static str,
    pub rule: String,
    pub assumptions: Vec<String>,
    pub bounds: Value,
    pub scenarios: Vec<Scenario>,
}

#[derive(Clone, Copy, Debug, PartialEq, Eq)]
pub enum Tier {
    Quick,
    Thorough,
}

impl Tier {
    pub fn name(&self) -> &'static str {
        match self {
            Tier::Quick => "quick",
            Tier::Thorough => "thorough",
        }
    }
}

pub struct Args {
    pub property: String,
    pub tier: Tier,
    pub replay: Option<String>,
    pub evidence: Option<String>,
    pub only: Option<String>,
    pub budget_s: Option<f64>,
    pub seed: i64,
    pub verif_dir: String,
    pub list: bool,
    /// Use the scenario list of another property (diagnostics only).
    pub spec: Option<String>,
}

pub fn parse_args() -> Args {
    let mut a = Args {
        property: String::new(),
        tier: match std::env::var("VERIF_TIER").ok().as_deref() {
            Some("thorough") => Tier::Thorough,
            _ => Tier::Quick,
        },
        replay: None,
        evidence: None,
        only: None,
        budget_s: std::env::var("DPMC_BUDGET_S").ok().and_then(|s| s.parse().ok()),
        seed: std::env::var("VERIF_SEED").ok().and_then(|s| s.parse().ok()).unwrap_or(0),
        verif_dir: std::env::var("VERIF_DIR").unwrap_or_else(|_| "/verif".to_string()),
        list: false,
        spec: None,
    };
    let mut it = std::env::args().skip(1);
    while let Some(x) = it.next() {
        match x.as_str() {
            "--tier" => {
                a.tier = match it.next().as_deref() {
                    Some("thorough") => Tier::Thorough,
                    _ => Tier::Quick,
                }
            }
            "--replay" => a.replay = it.next(),
            "--evidence" => a.evidence = it.next(),
            "--only" => a.only = it.next(),
            "--budget-s" => a.budget_s = it.next().and_then(|s| s.parse().ok()),
            "--list" => a.list = true,
            "--spec" => a.spec = it.next(),
            _ if a.property.is_empty() => a.property = x,
            _ => {
                eprintln!("unknown argument {}", x);
                std::process::exit(2);
            }
        }
    }
    a
}

#[derive(Default)]
struct Known {
    findings: Vec<(String, String, String)>, // property, key, what
}

fn load_known(dir: &str) -> Known {
    let mut k = Known::default();
    let p = format!("{}/KNOWN_FINDINGS.json", dir);
    if let Ok(s) = std::fs::read_to_string(&p) {
        match serde_json::from_str::<Value>(&s) {
            Ok(v) => {
                if let Some(arr) = v.get("findings").and_then(|x| x.as_array()) {
                    for f in arr {
                        k.findings.push((
                            f.get("property").and_then(|x| x.as_str()).unwrap_or("").to_string(),
                            f.get("key").and_then(|x| x.as_str()).unwrap_or("").to_string(),
                            f.get("what").and_then(|x| x.as_str()).unwrap_or("").to_string(),
                        ));
                    }
                }
            }
            Err(e) => {
                eprintln!("machinery: cannot parse {}: {}", p, e);
                std::process::exit(2);
            }
        }
    }
    k
}

fn stats_json(s: &Stats) -> Value {
    json!({
        "scenario": s.name,
        "bounds": s.bounds.map(|b| json!({"preemptions": b.p, "faults": b.f})),
        "executions": s.executions,
        "transitions": s.steps,
        "choice_points": s.choice_points,
        "max_choice_depth": s.max_depth,
        "distinct_states": s.states,
        "distinct_end_observations": s.observations,
        "executions_with_deviation": s.nontrivial_executions,
        "distinct_observations_with_deviation": s.nontrivial_observations,
        "violating_executions": s.violations.values().map(|v| v.count).sum::<u64>(),
        "capped": s.capped,
        "reachability": s.bfs_states.map(|n| json!({"canonical_states": n, "levels": s.bfs_levels, "closure_reached": s.bfs_closed})),
        "wall_s": (s.wall_s * 1000.0).round() / 1000.0,
    })
}

fn fnv(s: &str) -> u64 {
    let mut h: u64 = 0xcbf29ce484222325;
    for b in s.bytes() {
        h ^= b as u64;
        h = h.wrapping_mul(0x100000001b3);
    }
    h
}

/// Runs a property check end to end and exits the process.
pub fn run_check(args: &Args, spec: CheckSpec) -> ! {
    let start = Instant::now();
    if args.list {
        for s in &spec.scenarios {
            println!("{}\tp={} f={}\t{}", s.name, s.p, s.f, s.about);
        }
        std::process::exit(0);
    }
    if let Some(path) = &args.replay {
        replay_file(path, &spec);
    }
    let known = load_known(&args.verif_dir);
    let total_budget = args.budget_s.unwrap_or(match args.tier {
        Tier::Quick => 55.0,
        Tier::Thorough => 600.0,
    });
    let scenarios: Vec<&Scenario> = spec
        .scenarios
        .iter()
        .filter(|s| args.only.as_ref().map(|o| s.name.contains(o.as_str())).unwrap_or(true))
        .collect();
    let mut all: Vec<Stats> = Vec::new();
    let n = scenarios.len();
    let run_one = |sc: &Scenario, share: f64| -> Stats {
        let mut cfg = Config::new(&sc.name, sc.p, sc.f);
        if let Some(t) = sc.threads {
            cfg.threads = t;
        }
        cfg.deadline = Some(Instant::now() + Duration::from_secs_f64(share.max(0.5)));
        if let Some(s) = &sc.setup {
            s();
        }
        let st = if sc.bfs { explorer::explore_bfs(&cfg, &sc.run) } else { explorer::explore(&cfg, &sc.run) };
        if std::env::var_os("DPMC_PROGRESS").is_some() {
            eprintln!(
                "[{}] {}: {} executions, {} states{}, {} obs, {:.2}s{}{}",
                spec.property,
                sc.name,
                st.executions,
                st.states,
                st.bfs_states.map(|n| format!(" ({} canonical, {} levels, closure {})", n, st.bfs_levels.unwrap_or(0), st.bfs_closed.unwrap_or(false))).unwrap_or_default(),
                st.observations,
                st.wall_s,
                if st.violations.is_empty() { "" } else { " VIOLATIONS" },
                st.capped.as_ref().map(|c| format!(" capped: {}", c)).unwrap_or_default()
            );
        }
        st
    };
    // pass 1: an equal share of 40% of the budget each (unused time rolls
    // over); pass 2: scenarios that hit their cap are explored again from
    // scratch with the time that is left, split between them
    let first_budget = if n > 1 { total_budget * 0.4 } else { total_budget };
    for (i, sc) in scenarios.iter().enumerate() {
        let remaining = (first_budget - start.elapsed().as_secs_f64()).max(0.5);
        let share = remaining / (n - i) as f64;
        all.push(run_one(sc, share));
    }
    let capped_idx: Vec<usize> = all.iter().enumerate().filter(|(_, s)| s.capped.as_deref().map_or(false, |c| c.starts_with("wall-clock cap reached")) && s.machinery_errors.is_empty()).map(|(i, _)| i).collect();
    for (k, i) in capped_idx.iter().enumerate() {
        let remaining = total_budget - start.elapsed().as_secs_f64();
        let share = remaining / (capped_idx.len() - k) as f64;
        if share < all[*i].wall_s * 1.5 {
            continue;
        }
        let st = run_one(scenarios[*i], share);
        if st.executions >= all[*i].executions || st.capped.is_none() {
            all[*i] = st;
        }
    }
    // Machinery errors are never verdicts.  A verdict is a violation of this
    // property that was confirmed by replay; if there is one, it stands (a tree
    // that breaks the property may well break the harness's expectations
    // somewhere else too) and the machinery errors are listed next to it.
    // Without a confirmed violation a machinery error ends the check with exit 2.
    let mach: Vec<String> = all.iter().flat_map(|s| s.machinery_errors.iter().cloned()).collect();
    let own_confirmed = all.iter().any(|st| st.violations.values().any(|f| f.property == spec.property));
    if !mach.is_empty() {
        if own_confirmed {
            for m in &mach {
                eprintln!("MACHINERY-NOTE property={} (next to confirmed violations) {}", spec.property, m);
            }
        } else {
            for m in &mach {
                eprintln!("MACHINERY-ERROR property={} {}", spec.property, m);
            }
            std::process::exit(2);
        }
    }
    // violations of this property, by key
    let mut viol: BTreeMap<String, (String, Found)> = BTreeMap::new();
    let mut foreign: BTreeMap<String, Value> = BTreeMap::new();
    for st in &all {
        for f in st.violations.values() {
            if f.property == "MACHINERY" {
                if own_confirmed {
                    eprintln!("MACHINERY-NOTE property={} (next to confirmed violations) {} (scenario {}, choices {:?})", spec.property, f.msg, st.name, f.choices);
                    continue;
                }
                eprintln!("MACHINERY-ERROR property={} {} (scenario {}, choices {:?})", spec.property, f.msg, st.name, f.choices);
                std::process::exit(2);
            }
            if f.property != spec.property {
                let e = foreign.entry(format!("{}:{}", f.property, f.key)).or_insert_with(|| json!({"count": 0, "scenario": st.name, "example": f.msg, "choices": f.choices}));
                e["count"] = json!(e["count"].as_u64().unwrap_or(0) + f.count);
                continue;
            }
            let better = match viol.get(&f.key) {
                Some((_, e)) => (f.spent.0 + f.spent.1, f.choices.len()) < (e.spent.0 + e.spent.1, e.choices.len()),
                None => true,
            };
            if better {
                viol.insert(f.key.clone(), (st.name.clone(), f.clone()));
            }
        }
    }
    let mut n_viol = 0;
    let mut n_known = 0;
    let mut lines: Vec<String> = Vec::new();
    let mut viol_json: Vec<Value> = Vec::new();
    for (key, (scn, f)) in &viol {
        let k = known.findings.iter().find(|(p, k, _)| p == &spec.property && k == key);
        let sc = spec.scenarios.iter().find(|s| &s.name == scn).unwrap();
        let replay = json!({
            "property": spec.property,
            "tier": args.tier.name(),
            "scenario": scn,
            "about": sc.about,
            "bounds": {"preemptions": sc.p, "faults": sc.f},
            "deviations_used": {"preemptions": f.spent.0, "faults": f.spent.1},
            "key": key,
            "message": f.msg,
            "choices": f.choices,
            "trace": f.trace,
        });
        match k {
            Some((_, _, what)) => {
                n_known += 1;
                lines.push(format!("KNOWN-FINDING: property={} {} [key={}]", spec.property, what, key));
                viol_json.push(json!({"key": key, "known_finding": true, "scenario": scn, "message": f.msg, "choices": f.choices}));
            }
            None => {
                n_viol += 1;
                let dir = format!("{}/replays", args.verif_dir);
                let _ = std::fs::create_dir_all(&dir);
                let path = format!("{}/{}-{:016x}.json", dir, spec.property, fnv(&format!("{}|{}", scn, key)));
                if let Err(e) = std::fs::write(&path, serde_json::to_string_pretty(&replay).unwrap()) {
                    eprintln!("machinery: cannot write {}: {}", path, e);
                    std::process::exit(2);
                }
                lines.push(format!("VIOLATION property={} replay={}", spec.property, path));
                eprintln!("  {} [{}] {}", spec.property, key, f.msg);
                viol_json.push(json!({"key": key, "known_finding": false, "scenario": scn, "message": f.msg, "choices": f.choices, "replay": path}));
            }
        }
    }
    // evidence
    let execs: u64 = all.iter().map(|s| s.executions).sum();
    let steps: u64 = all.iter().map(|s| s.steps).sum();
    let states: u64 = all.iter().map(|s| s.states).sum();
    let nontriv: u64 = all.iter().map(|s| s.nontrivial_observations).sum();
    let obs: u64 = all.iter().map(|s| s.observations).sum();
    let capped: Vec<Value> = all
        .iter()
        .filter_map(|s| s.capped.as_ref().map(|c| json!({"scenario": s.name, "cap": c})))
        .collect();
    let states_capped = all.iter().any(|s| s.states_capped);
    let single_obs: Vec<String> = all.iter().filter(|s| s.observations <= 1 && s.executions > 1).map(|s| s.name.clone()).collect();
    let mut samples: Vec<Value> = Vec::new();
    for st in &all {
        for s in st.samples.iter().take(1) {
            if samples.len() < 6 {
                samples.push(json!({"scenario": st.name, "choices": s.choices, "trace": s.trace}));
            }
        }
    }
    if samples.is_empty() {
        samples.push(json!({"note": "no execution recorded"}));
    }
    let distinct_nontrivial = if spec.level == "model_checking" { nontriv } else { obs };
    let evidence = json!({
        "property_id": spec.property,
        "tier": args.tier.name(),
        "seed": args.seed,
        "level": spec.level,
        "coverage": {
            "states": states.max(0),
            "transitions": steps,
            "traces_validated_against_impl": execs,
            "evaluations": execs,
            "distinct_nontrivial": distinct_nontrivial,
            "distinct_end_observations": obs,
            "rule": format!("{} [counted as non-trivial: executions that used at least one preemption/fault or took at least two explored choices; distinct_nontrivial = distinct end observations among those, summed over scenarios]", spec.rule),
            "samples": samples,
            "exhaustive": capped.is_empty(),
            "bounds": spec.bounds,
            "caps_hit": capped,
            "state_set_capped": states_capped,
            "non_discriminating_scenarios": single_obs,
            "scenarios": all.iter().map(stats_json).collect::<Vec<_>>(),
            "violations_of_other_properties_seen": foreign,
            "explanation": "every execution is a run of the real deadpool code under the dpmc scheduler/environment; states = distinct fingerprints summed over scenarios, transitions = scheduler or history steps executed, traces_validated_against_impl = executions (each trace is an implementation run)",
        },
        "assumptions": spec.assumptions,
        "wall_s": (start.elapsed().as_secs_f64() * 1000.0).round() / 1000.0,
        "violations": n_viol,
        "known_findings_reproduced": n_known,
        "violation_details": viol_json,
    });
    let ev_path = args
        .evidence
        .clone()
        .unwrap_or_else(|| format!("{}/evidence/{}.json", args.verif_dir, spec.property));
    if let Some(parent) = std::path::Path::new(&ev_path).parent() {
        let _ = std::fs::create_dir_all(parent);
    }
    if let Err(e) = std::fs::write(&ev_path, serde_json::to_string_pretty(&evidence).unwrap()) {
        eprintln!("machinery: cannot write {}: {}", ev_path, e);
        std::process::exit(2);
    }
    for l in &lines {
        println!("{}", l);
    }
    println!(
        "{} {}: {} scenarios, {} executions, {} transitions, {} states, {} violations, {} known findings, {:.1}s{}",
        spec.property,
        args.tier.name(),
        all.len(),
        execs,
        steps,
        states,
        n_viol,
        n_known,
        start.elapsed().as_secs_f64(),
        if all.iter().any(|s| s.capped.is_some()) { " (capped)" } else { "" }
    );
    std::process::exit(if n_viol > 0 { 1 } else { 0 });
}

fn replay_file(path: &str, spec: &CheckSpec) -> ! {
    let s = match std::fs::read_to_string(path) {
        Ok(s) => s,
        Err(e) => {
            eprintln!("cannot read {}: {}", path, e);
            std::process::exit(2);
        }
    };
    let v: Value = serde_json::from_str(&s).expect("replay file is not JSON");
    let scn = v["scenario"].as_str().unwrap_or("");
    let choices: Vec<u16> = v["choices"]
        .as_array()
        .map(|a| a.iter().map(|x| x.as_u64().unwrap_or(0) as u16).collect())
        .unwrap_or_default();
    let Some(sc) = spec.scenarios.iter().find(|s| s.name == scn) else {
        eprintln!("scenario {} not found in {}", scn, spec.property);
        std::process::exit(2);
    };
    if let Some(s) = &sc.setup {
        s();
    }
    let (outcome, trace, taken, diverged) = explorer::replay(&choices, &sc.run);
    println!("replay of {} scenario {} choices {:?}", spec.property, scn, choices);
    for t in &trace {
        println!("  {}", t);
    }
    if let Some(d) = diverged {
        println!("MACHINERY-ERROR {}", d);
        std::process::exit(2);
    }
    if taken.len() < choices.len() {
        println!("MACHINERY-ERROR replay ended after {} of {} choices", taken.len(), choices.len());
        std::process::exit(2);
    }
    match outcome {
        Err(m) => {
            println!("MACHINERY-ERROR harness panicked: {}", m);
            std::process::exit(2);
        }
        Ok(o) => {
            let mine: Vec<_> = o.violations.iter().filter(|x| x.property == spec.property).collect();
            if mine.is_empty() {
                println!("replay: no violation of {}", spec.property);
                std::process::exit(0);
            }
            for x in mine {
                println!("  [{}] {}", x.key, x.msg);
            }
            println!("VIOLATION property={} replay={}", spec.property, path);
            std::process::exit(1);
        }
    }
}
