//! dpmc — a small stateless model checker for deadpool: bounded exhaustive
//! exploration of schedules, environment answers and operation histories of
//! the real code.
pub mod explorer;
pub mod report;
pub mod sched;

pub use explorer::{choose, choose_fault, choose_free, Bounds, Config, Cost, Outcome, Stats, Violation};

/// FNV-style hashing helper for fingerprints.
pub fn hash_of<T: std::hash::Hash>(t: &T) -> u64 {
    use std::hash::Hasher;
    let mut h = std::collections::hash_map::DefaultHasher::new();
    t.hash(&mut h);
    h.finish()
}
