//! Stateless, deviation-bounded depth-first exploration of choice sequences.
//!
//! An *execution* is one call of the harness closure. Everything
//! nondeterministic inside it goes through [`choose`]. The explorer replays a
//! prefix of choices and takes option 0 afterwards; after the execution it
//! backtracks to the deepest choice point that still has an alternative within
//! the deviation budgets (`p` preemptions, `f` faults) and repeats. The tree
//! is split dynamically into work items (prefixes) for worker threads; the set
//! of explored executions does not depend on timing.

use std::cell::RefCell;
use std::collections::{BTreeMap, HashSet};
use std::panic::{catch_unwind, AssertUnwindSafe};
use std::sync::atomic::{AtomicBool, AtomicU64, AtomicUsize, Ordering};
use std::sync::{Condvar, Mutex};
use std::time::Instant;

#[derive(Clone, Copy, Debug, Default, PartialEq, Eq)]
pub struct Cost {
    pub p: u8,
    pub f: u8,
}

impl Cost {
    pub const FREE: Cost = Cost { p: 0, f: 0 };
    pub const P: Cost = Cost { p: 1, f: 0 };
    pub const F: Cost = Cost { p: 0, f: 1 };
    pub const PF: Cost = Cost { p: 1, f: 1 };
}

#[derive(Clone, Copy, Debug, PartialEq, Eq)]
pub struct Bounds {
    pub p: u32,
    pub f: u32,
}

#[derive(Clone, Debug)]
struct Frame {
    n: u16,
    chosen: u16,
    costs: Vec<Cost>,
    spent: (u32, u32),
}

struct Cx {
    prefix: Vec<u16>,
    /// Length of the work item's own prefix (the part shared by its whole subtree).
    root_len: usize,
    frames: Vec<Frame>,
    spent: (u32, u32),
    record: bool,
    trace: Vec<String>,
    steps: u64,
    diverged: Option<String>,
    states: HashSet<u64>,
    states_capped: bool,
    cap_note: Option<String>,
    stop_requested: bool,
}

const STATE_CAP_PER_WORKER: usize = 6_000_000;

thread_local! {
    static CX: RefCell<Option<Cx>> = const { RefCell::new(None) };
    static QUIET: std::cell::Cell<bool> = const { std::cell::Cell::new(false) };
}

fn install_panic_hook() {
    static ONCE: std::sync::Once = std::sync::Once::new();
    ONCE.call_once(|| {
        let default = std::panic::take_hook();
        std::panic::set_hook(Box::new(move |info| {
            let quiet = QUIET.try_with(|q| q.get()).unwrap_or(false);
            if !quiet || std::env::var_os("DPMC_VERBOSE").is_some() {
                default(info);
            }
        }));
    });
}

/// Exhaustively explored choice. `costs[i]` is what taking option `i` costs in
/// deviations; `costs[0]` must be free.
pub fn choose(costs: &[Cost]) -> usize {
    let n = costs.len();
    assert!(n >= 1, "choose with no options");
    if n == 1 {
        return 0;
    }
    debug_assert!(costs[0] == Cost::FREE, "option 0 must be free");
    CX.with(|c| {
        let mut b = c.borrow_mut();
        let cx = b.as_mut().expect("dpmc::choose called outside an exploration");
        let pos = cx.frames.len();
        let chosen = if pos < cx.prefix.len() {
            let c = cx.prefix[pos] as usize;
            if c >= n {
                cx.diverged = Some(format!(
                    "replay divergence: choice {} of {} at depth {}",
                    c, n, pos
                ));
                0
            } else {
                c
            }
        } else {
            0
        };
        cx.frames.push(Frame {
            n: n as u16,
            chosen: chosen as u16,
            costs: costs.to_vec(),
            spent: cx.spent,
        });
        cx.spent.0 += costs[chosen].p as u32;
        cx.spent.1 += costs[chosen].f as u32;
        chosen
    })
}

/// `n` options, all free.
pub fn choose_free(n: usize) -> usize {
    if n <= 1 {
        return 0;
    }
    let costs = vec![Cost::FREE; n];
    choose(&costs)
}

/// Option 0 free, every other option costs one fault.
pub fn choose_fault(n: usize) -> usize {
    if n <= 1 {
        return 0;
    }
    let mut costs = vec![Cost::F; n];
    costs[0] = Cost::FREE;
    choose(&costs)
}

/// Deviations spent so far in this execution.
pub fn spent() -> (u32, u32) {
    CX.with(|c| c.borrow().as_ref().map(|cx| cx.spent).unwrap_or((0, 0)))
}

/// True once the execution has consumed its whole replay prefix, i.e. it is
/// in territory that no earlier execution of this worker has been through.
pub fn past_prefix() -> bool {
    CX.with(|c| c.borrow().as_ref().map(|cx| cx.frames.len() >= cx.prefix.len()).unwrap_or(true))
}

/// True once the execution has consumed the prefix of its *work item* (in a
/// breadth-first exploration: the choice vector of the frontier state it
/// expands); everything from here on is the step being explored.
pub fn past_root() -> bool {
    CX.with(|c| c.borrow().as_ref().map(|cx| cx.frames.len() >= cx.root_len).unwrap_or(true))
}

/// True while the current execution records an event trace.
pub fn tracing() -> bool {
    CX.with(|c| c.borrow().as_ref().map(|cx| cx.record).unwrap_or(false))
}

pub fn trace_push(s: String) {
    CX.with(|c| {
        if let Some(cx) = c.borrow_mut().as_mut() {
            if cx.record {
                cx.trace.push(s);
            }
        }
    })
}

#[macro_export]
macro_rules! trace {
    ($($arg:tt)*) => {
        if $crate::explorer::tracing() {
            $crate::explorer::trace_push(format!($($arg)*));
        }
    };
}

/// Records that this execution ran into a bound of the harness (e.g. the
/// horizon of a reachability exploration); reported as a cap in the evidence.
/// Resident-set guard: `Some(cap)` when this process uses more than
/// `DPMC_MAX_RSS_GB` GiB (default 20).  A scenario that trips it ends as
/// *capped*, never as a verdict.
fn rss_over_cap() -> Option<u64> {
    let cap: u64 = std::env::var("DPMC_MAX_RSS_GB").ok().and_then(|v| v.parse().ok()).unwrap_or(20);
    let statm = std::fs::read_to_string("/proc/self/statm").ok()?;
    let pages: u64 = statm.split_whitespace().nth(1)?.parse().ok()?;
    if pages * 4096 > cap << 30 {
        Some(cap)
    } else {
        None
    }
}

pub fn flag_cap(msg: &str) {
    CX.with(|c| {
        if let Some(cx) = c.borrow_mut().as_mut() {
            cx.cap_note = Some(msg.to_string());
        }
    })
}

/// Like [`flag_cap`], and additionally ends the exploration of this scenario
/// (used when going on would exhaust a machine resource).
pub fn flag_stop(msg: &str) {
    CX.with(|c| {
        if let Some(cx) = c.borrow_mut().as_mut() {
            cx.cap_note = Some(msg.to_string());
            cx.stop_requested = true;
        }
    })
}

/// Counts one transition.
pub fn count_step() {
    CX.with(|c| {
        if let Some(cx) = c.borrow_mut().as_mut() {
            cx.steps += 1;
        }
    })
}

/// Records a state fingerprint.
pub fn note_state(h: u64) {
    CX.with(|c| {
        if let Some(cx) = c.borrow_mut().as_mut() {
            if cx.states.len() < STATE_CAP_PER_WORKER {
                cx.states.insert(h);
            } else {
                cx.states_capped = true;
            }
        }
    })
}

#[derive(Clone, Debug)]
pub struct Violation {
    pub property: String,
    /// Structural signature of the violation (used to match known findings).
    pub key: String,
    pub msg: String,
}

#[derive(Clone, Debug, Default)]
pub struct Outcome {
    /// Hash of the end-of-execution observation tuple.
    pub obs: u64,
    pub violations: Vec<Violation>,
}

#[derive(Clone, Debug)]
pub struct Found {
    pub property: String,
    pub key: String,
    pub msg: String,
    pub choices: Vec<u16>,
    pub trace: Vec<String>,
    pub spent: (u32, u32),
    pub count: u64,
}

#[derive(Clone, Debug)]
pub struct Sample {
    pub choices: Vec<u16>,
    pub trace: Vec<String>,
}

#[derive(Clone, Debug)]
pub struct Config {
    pub name: String,
    pub bounds: Bounds,
    pub threads: usize,
    pub deadline: Option<Instant>,
    pub max_execs: Option<u64>,
    pub samples: usize,
    /// Stop as soon as this many distinct violation keys were found.
    pub max_violation_keys: usize,
}

impl Config {
    pub fn new(name: &str, p: u32, f: u32) -> Self {
        let threads = std::env::var("DPMC_THREADS")
            .ok()
            .and_then(|s| s.parse().ok())
            .unwrap_or_else(|| {
                std::thread::available_parallelism()
                    .map(|n| n.get())
                    .unwrap_or(4)
                    .min(16)
            });
        Config {
            name: name.to_string(),
            bounds: Bounds { p, f },
            threads,
            deadline: None,
            max_execs: None,
            samples: 2,
            max_violation_keys: 24,
        }
    }
}

#[derive(Clone, Debug, Default)]
pub struct Stats {
    pub name: String,
    pub bounds: Option<Bounds>,
    pub executions: u64,
    pub steps: u64,
    pub choice_points: u64,
    pub max_depth: usize,
    pub states: u64,
    pub states_capped: bool,
    pub observations: u64,
    pub nontrivial_executions: u64,
    pub nontrivial_observations: u64,
    pub violations: BTreeMap<String, Found>,
    pub samples: Vec<Sample>,
    pub capped: Option<String>,
    pub machinery_errors: Vec<String>,
    pub wall_s: f64,
    /// Breadth-first reachability: canonical states, levels, closure reached.
    pub bfs_states: Option<u64>,
    pub bfs_levels: Option<u64>,
    pub bfs_closed: Option<bool>,
}

struct Shared {
    queue: Mutex<QueueState>,
    cv: Condvar,
    stop: AtomicBool,
    executions: AtomicU64,
    queue_len: AtomicUsize,
    waiting: AtomicUsize,
}

struct QueueState {
    /// (prefix, length of the original work item it descends from)
    items: Vec<(Vec<u16>, usize)>,
    active: usize,
}

#[derive(Default)]
struct Local {
    executions: u64,
    steps: u64,
    choice_points: u64,
    max_depth: usize,
    states: HashSet<u64>,
    states_capped: bool,
    observations: HashSet<u64>,
    nontrivial_executions: u64,
    nontrivial_observations: HashSet<u64>,
    violations: BTreeMap<String, Found>,
    samples: Vec<Sample>,
    machinery_errors: Vec<String>,
    /// violations (`property|key`, message) that did not come back when their
    /// schedule was replayed: a machinery error unless the same property has a
    /// confirmed violation as well (see `explore_from`)
    flaky: Vec<(String, String)>,
}

struct RunResult {
    outcome: Result<Outcome, String>,
    frames: Vec<Frame>,
    trace: Vec<String>,
    steps: u64,
    spent: (u32, u32),
    diverged: Option<String>,
    cap_note: Option<String>,
    stop_requested: bool,
}

fn run_one<F: Fn() -> Outcome>(
    f: &F,
    prefix: Vec<u16>,
    root_len: usize,
    record: bool,
    states: &mut HashSet<u64>,
    states_capped: &mut bool,
) -> RunResult {
    let st = std::mem::take(states);
    CX.with(|c| {
        *c.borrow_mut() = Some(Cx {
            prefix,
            root_len,
            frames: Vec::with_capacity(64),
            spent: (0, 0),
            record,
            trace: Vec::new(),
            steps: 0,
            diverged: None,
            states: st,
            states_capped: *states_capped,
            cap_note: None,
            stop_requested: false,
        })
    });
    QUIET.with(|q| q.set(true));
    let r = catch_unwind(AssertUnwindSafe(f));
    QUIET.with(|q| q.set(false));
    let cx = CX.with(|c| c.borrow_mut().take()).unwrap();
    *states = cx.states;
    *states_capped = cx.states_capped;
    let outcome = match r {
        Ok(o) => Ok(o),
        Err(p) => Err(panic_msg(&p)),
    };
    RunResult {
        outcome,
        frames: cx.frames,
        trace: cx.trace,
        steps: cx.steps,
        spent: cx.spent,
        diverged: cx.diverged,
        cap_note: cx.cap_note,
        stop_requested: cx.stop_requested,
    }
}

pub fn panic_msg(p: &Box<dyn std::any::Any + Send>) -> String {
    if let Some(s) = p.downcast_ref::<&str>() {
        s.to_string()
    } else if let Some(s) = p.downcast_ref::<String>() {
        s.clone()
    } else {
        "<non-string panic payload>".to_string()
    }
}

fn affordable(fr: &Frame, alt: usize, b: &Bounds) -> bool {
    let c = fr.costs[alt];
    fr.spent.0 + c.p as u32 <= b.p && fr.spent.1 + c.f as u32 <= b.f
}

fn next_prefix(frames: &[Frame], root_len: usize, b: &Bounds) -> Option<Vec<u16>> {
    for i in (root_len..frames.len()).rev() {
        let fr = &frames[i];
        for alt in (fr.chosen as usize + 1)..(fr.n as usize) {
            if affordable(fr, alt, b) {
                let mut p: Vec<u16> = frames[..i].iter().map(|f| f.chosen).collect();
                p.push(alt as u16);
                return Some(p);
            }
        }
    }
    None
}

/// Explores every execution of `f` within the bounds of `cfg`.
pub fn explore<F: Fn() -> Outcome + Sync>(cfg: &Config, f: F) -> Stats {
    explore_from(cfg, &f, vec![Vec::new()])
}

struct BfsState {
    visited: HashSet<u64>,
    next: Vec<Vec<u16>>,
}

static BFS: Mutex<Option<BfsState>> = Mutex::new(None);

/// Breadth-first reachability: records the canonical state `key` reached by
/// the current execution. Returns true if it was not known before (the
/// execution's choice vector then becomes a frontier entry of the next level).
pub fn bfs_visit(key: u64) -> bool {
    let choices: Vec<u16> = CX.with(|c| c.borrow().as_ref().map(|cx| cx.frames.iter().map(|f| f.chosen).collect()).unwrap_or_default());
    let mut g = BFS.lock().unwrap();
    match g.as_mut() {
        Some(b) => {
            if b.visited.insert(key) {
                b.next.push(choices);
                true
            } else {
                false
            }
        }
        None => false,
    }
}

/// True while a breadth-first exploration is running.
pub fn bfs_active() -> bool {
    BFS.lock().unwrap().is_some()
}

/// Level-by-level exploration of the state graph: every frontier state is
/// re-created by replaying its choice vector, then every one-step successor is
/// executed (the harness ends an execution after the first step past its
/// prefix and reports the state through [`bfs_visit`]). Ends when a level
/// discovers no new state (closure) or a cap is hit.
pub fn explore_bfs<F: Fn() -> Outcome + Sync>(cfg: &Config, f: F) -> Stats {
    *BFS.lock().unwrap() = Some(BfsState { visited: HashSet::new(), next: Vec::new() });
    let start = Instant::now();
    let mut total = Stats { name: cfg.name.clone(), bounds: Some(cfg.bounds), ..Default::default() };
    let mut frontier: Vec<Vec<u16>> = vec![Vec::new()];
    let mut level = 0usize;
    let mut closed = false;
    loop {
        if frontier.is_empty() {
            closed = true;
            break;
        }
        let st = explore_from(cfg, &f, std::mem::take(&mut frontier));
        total.executions += st.executions;
        total.steps += st.steps;
        total.choice_points += st.choice_points;
        total.max_depth = total.max_depth.max(st.max_depth);
        total.states += st.states;
        total.observations += st.observations;
        total.nontrivial_executions += st.nontrivial_executions;
        total.nontrivial_observations += st.nontrivial_observations;
        total.states_capped |= st.states_capped;
        for (k, v) in st.violations {
            match total.violations.get_mut(&k) {
                Some(e) => e.count += v.count,
                None => {
                    total.violations.insert(k, v);
                }
            }
        }
        if total.samples.len() < cfg.samples.max(1) {
            total.samples.extend(st.samples);
        }
        total.machinery_errors.extend(st.machinery_errors);
        // a violating step ends its own history (its state is not expanded);
        // the other branches go on, so that one property's violation does not
        // hide deeper violations of another
        if st.capped.is_some() || total.violations.len() >= cfg.max_violation_keys || !total.machinery_errors.is_empty() {
            total.capped = st.capped.map(|c| format!("{} (breadth-first level {})", c, level));
            break;
        }
        frontier = std::mem::take(&mut BFS.lock().unwrap().as_mut().unwrap().next);
        frontier.sort();
        level += 1;
        // the workers look at the clock every 64 executions, which a long run
        // of narrow levels never reaches: look here as well
        if !frontier.is_empty() {
            if cfg.deadline.map_or(false, |d| Instant::now() >= d) {
                total.capped = Some(format!("wall-clock cap reached (breadth-first level {})", level));
                break;
            }
            if let Some(gb) = rss_over_cap() {
                total.capped = Some(format!("resident-memory cap reached ({} GiB) (breadth-first level {})", gb, level));
                break;
            }
        }
    }
    let b = BFS.lock().unwrap().take().unwrap();
    total.bfs_states = Some(b.visited.len() as u64);
    total.bfs_levels = Some(level as u64);
    total.bfs_closed = Some(closed);
    if !closed && total.capped.is_none() {
        total.capped = Some(format!("breadth-first exploration stopped at level {}", level));
    }
    total.wall_s = start.elapsed().as_secs_f64();
    total
}

fn explore_from<F: Fn() -> Outcome + Sync>(cfg: &Config, f: &F, items: Vec<Vec<u16>>) -> Stats {
    install_panic_hook();
    let start = Instant::now();
    let n_items = items.len();
    let shared = Shared {
        queue: Mutex::new(QueueState {
            items: items.into_iter().map(|p| { let n = p.len(); (p, n) }).collect(),
            active: 0,
        }),
        cv: Condvar::new(),
        stop: AtomicBool::new(false),
        executions: AtomicU64::new(0),
        queue_len: AtomicUsize::new(n_items),
        waiting: AtomicUsize::new(0),
    };
    let capped: Mutex<Option<String>> = Mutex::new(None);
    let nthreads = cfg.threads.max(1);
    let locals: Vec<Local> = std::thread::scope(|s| {
        let handles: Vec<_> = (0..nthreads)
            .map(|w| {
                let shared = &shared;
                let f = f;
                let capped = &capped;
                std::thread::Builder::new()
                    .name(format!("dpmc-{}", w))
                    .stack_size(16 << 20)
                    .spawn_scoped(s, move || worker(cfg, shared, f, capped))
                    .unwrap()
            })
            .collect();
        handles.into_iter().map(|h| h.join().unwrap()).collect()
    });
    let mut st = Stats {
        name: cfg.name.clone(),
        bounds: Some(cfg.bounds),
        ..Default::default()
    };
    let mut states = HashSet::new();
    let mut obs = HashSet::new();
    let mut ntobs = HashSet::new();
    let mut flaky: Vec<(String, String)> = Vec::new();
    for l in locals {
        st.executions += l.executions;
        st.steps += l.steps;
        st.choice_points += l.choice_points;
        st.max_depth = st.max_depth.max(l.max_depth);
        st.states_capped |= l.states_capped;
        st.nontrivial_executions += l.nontrivial_executions;
        states.extend(l.states);
        obs.extend(l.observations);
        ntobs.extend(l.nontrivial_observations);
        for (k, v) in l.violations {
            match st.violations.get_mut(&k) {
                Some(e) => {
                    let c = e.count + v.count;
                    if better(&v, e) {
                        *e = v;
                    }
                    e.count = c;
                }
                None => {
                    st.violations.insert(k, v);
                }
            }
        }
        st.samples.extend(l.samples);
        st.machinery_errors.extend(l.machinery_errors);
        flaky.extend(l.flaky);
    }
    // A violation key that does not replay is a harness problem - unless the
    // same property also has a violation that does: then the code under test
    // is at fault and merely behaves differently from run to run.
    for (k, msg) in flaky {
        let prop = k.split('|').next().unwrap_or("").to_string();
        let confirmed = st.violations.values().any(|v| v.property == prop);
        if !confirmed && !st.machinery_errors.contains(&msg) {
            st.machinery_errors.push(msg);
        }
    }
    st.samples.sort_by(|a, b| a.choices.cmp(&b.choices));
    st.samples.truncate(cfg.samples.max(1));
    st.states = states.len() as u64;
    st.observations = obs.len() as u64;
    st.nontrivial_observations = ntobs.len() as u64;
    st.capped = capped.lock().unwrap().clone();
    st.wall_s = start.elapsed().as_secs_f64();
    st
}

fn better(a: &Found, b: &Found) -> bool {
    let ka = (a.spent.0 + a.spent.1, a.choices.len(), &a.choices);
    let kb = (b.spent.0 + b.spent.1, b.choices.len(), &b.choices);
    ka < kb
}

fn worker<F: Fn() -> Outcome + Sync>(
    cfg: &Config,
    shared: &Shared,
    f: &F,
    capped: &Mutex<Option<String>>,
) -> Local {
    let mut local = Local::default();
    loop {
        // fetch a work item
        let item = {
            let mut q = shared.queue.lock().unwrap();
            loop {
                if shared.stop.load(Ordering::Relaxed) {
                    break None;
                }
                if let Some(it) = q.items.pop() {
                    q.active += 1;
                    shared.queue_len.store(q.items.len(), Ordering::Relaxed);
                    break Some(it);
                }
                if q.active == 0 {
                    shared.cv.notify_all();
                    break None;
                }
                shared.waiting.fetch_add(1, Ordering::Relaxed);
                q = shared.cv.wait(q).unwrap();
                shared.waiting.fetch_sub(1, Ordering::Relaxed);
            }
        };
        let Some((item, item_len)) = item else { break };
        let mut root_len = item.len();
        let mut prefix = item;
        loop {
            if shared.stop.load(Ordering::Relaxed) {
                break;
            }
            let want_sample = local.samples.len() < cfg.samples && prefix.len() <= root_len.max(1) && local.executions < 4;
            let rr = run_one(
                f,
                prefix.clone(),
                item_len,
                want_sample,
                &mut local.states,
                &mut local.states_capped,
            );
            local.executions += 1;
            local.steps += rr.steps;
            local.choice_points += rr.frames.len() as u64;
            local.max_depth = local.max_depth.max(rr.frames.len());
            let total = shared.executions.fetch_add(1, Ordering::Relaxed) + 1;
            let choices: Vec<u16> = rr.frames.iter().map(|f| f.chosen).collect();
            if let Some(n) = &rr.cap_note {
                let mut c = capped.lock().unwrap();
                if c.is_none() {
                    *c = Some(n.clone());
                }
                if rr.stop_requested {
                    shared.stop.store(true, Ordering::Relaxed);
                }
            }
            if let Some(d) = &rr.diverged {
                local
                    .machinery_errors
                    .push(format!("{} (choices {:?})", d, choices));
                shared.stop.store(true, Ordering::Relaxed);
            }
            match &rr.outcome {
                Err(m) => {
                    local.machinery_errors.push(format!(
                        "harness panicked on the controller: {} (choices {:?})",
                        m, choices
                    ));
                    shared.stop.store(true, Ordering::Relaxed);
                }
                Ok(o) => {
                    local.observations.insert(o.obs);
                    // non-trivial: used a deviation, or took at least two explored choices
                    if rr.spent.0 + rr.spent.1 > 0 || rr.frames.len() >= 2 {
                        local.nontrivial_executions += 1;
                        local.nontrivial_observations.insert(o.obs);
                    }
                    if want_sample {
                        local.samples.push(Sample {
                            choices: choices.clone(),
                            trace: rr.trace.clone(),
                        });
                    }
                    for v in &o.violations {
                        let cand = Found {
                            property: v.property.clone(),
                            key: v.key.clone(),
                            msg: v.msg.clone(),
                            choices: choices.clone(),
                            trace: Vec::new(),
                            spent: rr.spent,
                            count: 1,
                        };
                        let k = format!("{}|{}", v.property, v.key);
                        let replace = match local.violations.get_mut(&k) {
                            Some(e) => {
                                e.count += 1;
                                better(&cand, e)
                            }
                            None => true,
                        };
                        if replace {
                            // confirm by replaying twice with tracing on
                            let r1 = run_one(
                                f,
                                choices.clone(),
                                item_len,
                                true,
                                &mut local.states,
                                &mut local.states_capped,
                            );
                            let r2 = run_one(
                                f,
                                choices.clone(),
                                item_len,
                                true,
                                &mut local.states,
                                &mut local.states_capped,
                            );
                            let same = r1.trace == r2.trace
                                && r1.diverged.is_none()
                                && r2.diverged.is_none()
                                && matches!((&r1.outcome, &r2.outcome), (Ok(a), Ok(b))
                                    if a.violations.iter().any(|x| x.key == v.key && x.property == v.property)
                                    && b.violations.iter().any(|x| x.key == v.key && x.property == v.property));
                            // The replays differ.  If the choice vector stays valid and the
                            // violation itself comes back in most of a handful of further
                            // replays, the code under test is nondeterministic under one
                            // schedule (e.g. it depends on `HashMap`'s per-instance seed): that
                            // is still a violation, and it is reported with a note.  Anything
                            // else is a harness problem and never a verdict.
                            let mut reproduced_anyway: Option<(usize, Vec<String>)> = None;
                            if !same && r1.diverged.is_none() && r2.diverged.is_none() {
                                let has = |r: &RunResult| matches!(&r.outcome, Ok(a) if a.violations.iter().any(|x| x.key == v.key && x.property == v.property));
                                let mut hits = usize::from(has(&r1)) + usize::from(has(&r2));
                                let mut sample = if has(&r1) { Some(r1.trace.clone()) } else if has(&r2) { Some(r2.trace.clone()) } else { None };
                                let mut diverged = false;
                                for _ in 0..3 {
                                    let r = run_one(f, choices.clone(), item_len, true, &mut local.states, &mut local.states_capped);
                                    diverged |= r.diverged.is_some();
                                    if has(&r) {
                                        hits += 1;
                                        sample.get_or_insert(r.trace.clone());
                                    }
                                }
                                if !diverged && hits >= 3 {
                                    let mut t = sample.unwrap_or_default();
                                    t.push(format!("(note: the violation came back in {} of 5 replays of this schedule; their traces differ - the code under test is not deterministic under a fixed schedule)", hits));
                                    reproduced_anyway = Some((hits, t));
                                }
                            }
                            if let Some((_, t)) = reproduced_anyway {
                                let count = local.violations.get(&k).map(|e| e.count).unwrap_or(1);
                                let mut c = cand;
                                c.trace = t;
                                c.count = count;
                                local.violations.insert(k, c);
                            } else if !same {
                                if !local.flaky.iter().any(|(fk, _)| *fk == k) {
                                    local.flaky.push((k.clone(), format!("violation {} did not replay identically (choices {:?})", k, choices)));
                                }
                            } else {
                                let count = local.violations.get(&k).map(|e| e.count).unwrap_or(1);
                                let mut c = cand;
                                c.trace = r1.trace;
                                c.count = count;
                                local.violations.insert(k, c);
                            }
                        }
                    }
                    if local.violations.len() >= cfg.max_violation_keys {
                        let mut c = capped.lock().unwrap();
                        if c.is_none() {
                            *c = Some(format!(
                                "stopped after {} distinct violation keys",
                                cfg.max_violation_keys
                            ));
                        }
                        shared.stop.store(true, Ordering::Relaxed);
                    }
                }
            }
            // caps
            if let Some(m) = cfg.max_execs {
                if total >= m {
                    let mut c = capped.lock().unwrap();
                    if c.is_none() {
                        *c = Some(format!("execution cap {} reached", m));
                    }
                    shared.stop.store(true, Ordering::Relaxed);
                }
            }
            if local.executions % 64 == 0 {
                if let Some(d) = cfg.deadline {
                    if Instant::now() >= d {
                        let mut c = capped.lock().unwrap();
                        if c.is_none() {
                            *c = Some("wall-clock cap reached".to_string());
                        }
                        shared.stop.store(true, Ordering::Relaxed);
                    }
                }
            }
            if local.executions % 4096 == 0 {
                if let Some(gb) = rss_over_cap() {
                    let mut c = capped.lock().unwrap();
                    if c.is_none() {
                        *c = Some(format!("resident-memory cap reached ({} GiB)", gb));
                    }
                    shared.stop.store(true, Ordering::Relaxed);
                }
            }
            // donate work when others are idle
            if shared.waiting.load(Ordering::Relaxed) > 0
                && shared.queue_len.load(Ordering::Relaxed) < cfg.threads
            {
                let mut donated: Vec<(Vec<u16>, usize)> = Vec::new();
                for i in root_len..rr.frames.len() {
                    let fr = &rr.frames[i];
                    let mut any = false;
                    for alt in (fr.chosen as usize + 1)..(fr.n as usize) {
                        if affordable(fr, alt, &cfg.bounds) {
                            let mut p: Vec<u16> = rr.frames[..i].iter().map(|f| f.chosen).collect();
                            p.push(alt as u16);
                            donated.push((p, item_len));
                            any = true;
                        }
                    }
                    if any {
                        root_len = i + 1;
                        break;
                    }
                }
                if !donated.is_empty() {
                    let mut q = shared.queue.lock().unwrap();
                    q.items.extend(donated);
                    shared.queue_len.store(q.items.len(), Ordering::Relaxed);
                    shared.cv.notify_all();
                }
            }
            match next_prefix(&rr.frames, root_len, &cfg.bounds) {
                Some(p) => prefix = p,
                None => break,
            }
        }
        let mut q = shared.queue.lock().unwrap();
        q.active -= 1;
        if q.active == 0 && q.items.is_empty() {
            shared.cv.notify_all();
        }
    }
    // wake everyone on stop
    shared.cv.notify_all();
    local
}

/// Re-executes one choice vector with tracing on. Returns the outcome, the
/// trace and the choices actually taken.
pub fn replay<F: Fn() -> Outcome>(choices: &[u16], f: F) -> (Result<Outcome, String>, Vec<String>, Vec<u16>, Option<String>) {
    install_panic_hook();
    let mut st = HashSet::new();
    let mut capped = false;
    let rr = run_one(&f, choices.to_vec(), usize::MAX, true, &mut st, &mut capped);
    let taken = rr.frames.iter().map(|f| f.chosen).collect();
    (rr.outcome, rr.trace, taken, rr.diverged)
}
