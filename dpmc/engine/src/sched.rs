//! Actors (stackful coroutines), the controlled scheduler and the
//! implementation of deadpool's verification hooks.
//!
//! All actors of an execution live on the OS thread of the exploring worker.
//! Exactly one of them runs at a time; it runs until its next scheduling point
//! (a shim operation reported through the hooks, an explicit pause, a `Pending`
//! poll, a contended lock, or its end), at which control returns to the
//! scheduler loop [`run`], which asks the explorer what happens next.

use std::cell::{Cell, RefCell};
use std::collections::BTreeMap;
use std::future::Future;
use std::panic::{catch_unwind, AssertUnwindSafe};
use std::pin::Pin;
use std::rc::Rc;
use std::sync::atomic::{AtomicBool, Ordering};
use std::sync::Arc;
use std::task::{Context, Poll, Wake, Waker};

use corosensei::stack::DefaultStack;
use corosensei::{Coroutine, CoroutineResult, Yielder};
use deadpool_runtime::verif::{self, BlockingFn, Hooks, ObjKind, Op};

use crate::explorer::{self, Cost};
use crate::trace;

const STACK_SIZE: usize = 256 * 1024;

#[derive(Clone, Copy, Debug, PartialEq, Eq)]
pub enum Resume {
    Go,
    Cancel,
}

#[derive(Clone, Copy, Debug)]
enum Yield {
    /// About to perform `op` on shim object `obj`.
    Point(Op, #[allow(dead_code)] u64),
    /// Explicit pause between two operations of a script: switching here is free.
    Boundary,
    /// Explicit harness point inside an operation (costs a preemption to leave).
    Pause,
    /// `try_lock` failed on mutex `obj`.
    Blocked(u64),
    /// Future returned `Pending`.
    Parked { cancellable: bool },
}

#[derive(Clone, Copy, Debug, PartialEq, Eq)]
enum AState {
    Ready,
    /// Parked at a free switching point.
    AtBoundary,
    Blocked(u64),
    Parked { cancellable: bool },
    Finished,
}

#[derive(Clone, Copy, Debug, PartialEq, Eq)]
pub enum ActorKind {
    Scripted,
    Blocking,
}

struct WakeFlag(AtomicBool);

impl Wake for WakeFlag {
    fn wake(self: Arc<Self>) {
        self.0.store(true, Ordering::SeqCst);
    }
    fn wake_by_ref(self: &Arc<Self>) {
        self.0.store(true, Ordering::SeqCst);
    }
}

type Co = Coroutine<Resume, Yield, (), DefaultStack>;

struct Actor {
    name: String,
    kind: ActorKind,
    co: Option<Co>,
    state: AState,
    wake: Arc<WakeFlag>,
    yielder: *const Yielder<Resume, Yield>,
    panicked: Option<String>,
    points: u32,
    last: &'static str,
    /// Scheduler progress counter when the actor last reported a contended lock.
    blocked_at: u64,
}

#[derive(Default)]
struct GateRec {
    label: String,
    fired: bool,
    waker: Option<Waker>,
    armed: bool,
    alive: bool,
    auto: bool,
}

struct State {
    actors: Vec<Actor>,
    current: Option<usize>,
    /// Points do not yield while > 0.
    atomic: u32,
    held: BTreeMap<u64, Option<usize>>,
    /// actors that had to wait for a hooked lock (index of the waiter)
    lock_waits: Vec<usize>,
    next_obj: u64,
    gates: Vec<GateRec>,
    steps: u32,
    last_running: Option<usize>,
    winding_down: bool,
    machinery: Option<String>,
    free_boundaries: bool,
    /// Incremented whenever an actor runs a step (used to keep an actor that
    /// found a lock contended from spinning: it is re-enabled only after some
    /// other actor has moved, or when the engine saw the lock being released).
    progress: u64,
    /// Stable small ids for objects identified by address (plain std mutexes).
    addr_ids: BTreeMap<u64, u64>,
    manual_blocking: bool,
    jobs: std::collections::VecDeque<BlockingFn>,
}

thread_local! {
    static ST: RefCell<Option<State>> = const { RefCell::new(None) };
    static STACKS: RefCell<Vec<DefaultStack>> = const { RefCell::new(Vec::new()) };
    static INSTALLED: Cell<bool> = const { Cell::new(false) };
}

fn with_st<R>(f: impl FnOnce(&mut State) -> R) -> R {
    ST.with(|s| f(s.borrow_mut().as_mut().expect("scheduler not initialised")))
}

fn try_with_st<R>(f: impl FnOnce(&mut State) -> R) -> Option<R> {
    ST.try_with(|s| s.try_borrow_mut().ok().and_then(|mut b| b.as_mut().map(f)))
        .ok()
        .flatten()
}

struct EngineHooks;

/// Objects identified by their address (plain std mutexes behind
/// `before_std_lock`) get a small per-execution id in order of first use, so
/// that traces and states do not depend on where the allocator put them.
fn norm_id(obj: u64) -> u64 {
    if obj < (1 << 32) {
        return obj;
    }
    try_with_st(|st| {
        let n = st.addr_ids.len() as u64;
        *st.addr_ids.entry(obj).or_insert((1 << 31) + n)
    })
    .unwrap_or(obj)
}

fn suspend(y: Yield) -> Resume {
    let ptr = with_st(|st| {
        let cur = st.current.expect("suspend outside an actor");
        st.actors[cur].yielder
    });
    // SAFETY: the yielder lives on the coroutine's own stack for as long as the
    // coroutine body runs, and we are running on that coroutine right now.
    unsafe { (*ptr).suspend(y) }
}

fn can_yield() -> bool {
    if std::thread::panicking() {
        return false;
    }
    try_with_st(|st| st.current.is_some() && st.atomic == 0).unwrap_or(false)
}

fn op_name(op: Op) -> &'static str {
    match op {
        Op::MutexLock => "lock",
        Op::AtomicRmw => "atomic-rmw",
        Op::AtomicLoad => "atomic-load",
        Op::SemTryAcquire => "sem.try_acquire",
        Op::SemAcquirePoll => "sem.acquire-poll",
        Op::SemAddPermits => "sem.add_permits",
        Op::SemForgetPermits => "sem.forget_permits",
        Op::SemClose => "sem.close",
        Op::SemIsClosed => "sem.is_closed",
        Op::SemPermitDrop => "sem.permit-drop",
        Op::SemAvailablePermits => "sem.available_permits",
    }
}

impl Hooks for EngineHooks {
    fn new_object(&self, _kind: ObjKind) -> u64 {
        try_with_st(|st| {
            st.next_obj += 1;
            st.next_obj
        })
        .unwrap_or(0)
    }

    fn point(&self, op: Op, obj: u64) {
        if can_yield() {
            let _ = suspend(Yield::Point(op, obj));
        }
    }

    fn mutex_blocked(&self, obj: u64) {
        let obj = norm_id(obj);
        if can_yield() {
            with_st(|st| {
                if let Some(c) = st.current {
                    st.lock_waits.push(c);
                }
            });
            let _ = suspend(Yield::Blocked(obj));
        } else {
            // Cannot wait here (controller context, atomic section or
            // unwinding): this is a harness bug, never a verdict.
            let m = format!("contended lock {} where the engine cannot wait", obj);
            let _ = try_with_st(|st| st.machinery = Some(m.clone()));
            panic!("dpmc machinery: {}", m);
        }
    }

    fn mutex_acquired(&self, obj: u64) {
        let obj = norm_id(obj);
        let _ = try_with_st(|st| {
            let cur = st.current;
            st.held.insert(obj, cur);
        });
    }

    fn mutex_released(&self, obj: u64) {
        let obj = norm_id(obj);
        let _ = try_with_st(|st| {
            st.held.remove(&obj);
        });
    }

    fn spawn_blocking(&self, f: BlockingFn) {
        if with_st(|st| st.manual_blocking) {
            with_st(|st| st.jobs.push_back(f));
            return;
        }
        let n = with_st(|st| st.actors.len());
        spawn_kind(&format!("blocking{}", n), ActorKind::Blocking, move || f());
        // the blocking pool may run (and finish) the closure before the
        // submitter executes its next instruction
        if can_yield() {
            with_st(|st| {
                if let Some(c) = st.current {
                    st.actors[c].last = "spawn_blocking";
                }
            });
            let _ = suspend(Yield::Pause);
        }
    }
}

/// Starts a fresh scheduler for one execution and installs the hooks on this
/// thread.
pub fn begin() {
    if !INSTALLED.with(|i| i.get()) {
        verif::install(Some(Rc::new(EngineHooks)));
        INSTALLED.with(|i| i.set(true));
    }
    ST.with(|s| {
        *s.borrow_mut() = Some(State {
            actors: Vec::new(),
            current: None,
            atomic: 0,
            held: BTreeMap::new(),
            lock_waits: Vec::new(),
            next_obj: 0,
            gates: Vec::new(),
            steps: 0,
            last_running: None,
            winding_down: false,
            machinery: None,
            free_boundaries: true,
            progress: 0,
            addr_ids: BTreeMap::new(),
            manual_blocking: false,
            jobs: std::collections::VecDeque::new(),
        })
    });
}

/// Tears the scheduler down. Unfinished coroutines are leaked on purpose
/// (unwinding foreign frames at this point could run pool code outside the
/// scheduler's control); this only happens on deadlock verdicts.
pub fn end() {
    let st = ST.with(|s| s.borrow_mut().take());
    if let Some(st) = st {
        for a in st.actors {
            if let Some(co) = a.co {
                if co.done() {
                    STACKS.with(|s| s.borrow_mut().push(co.into_stack()));
                } else {
                    // a stuck actor (deadlock / horizon verdict): its stack cannot
                    // be reclaimed safely; give up on the scenario before leaked
                    // stacks exhaust the address space
                    std::mem::forget(co);
                    static LEAKED: std::sync::atomic::AtomicUsize = std::sync::atomic::AtomicUsize::new(0);
                    let n = LEAKED.fetch_add(1, Ordering::Relaxed) + 1;
                    if n % 4000 == 0 {
                        explorer::flag_stop("stopped: too many executions ended with stuck actors (their coroutine stacks cannot be reclaimed)");
                    }
                }
            }
        }
    }
}

/// Spawns a scripted actor. May be called from the controller or from an actor.
pub fn spawn(name: &str, body: impl FnOnce() + 'static) -> usize {
    spawn_kind(name, ActorKind::Scripted, body)
}

fn spawn_kind(name: &str, kind: ActorKind, body: impl FnOnce() + 'static) -> usize {
    let stack = STACKS
        .with(|s| s.borrow_mut().pop())
        .unwrap_or_else(|| DefaultStack::new(STACK_SIZE).expect("stack allocation"));
    let idx = with_st(|st| st.actors.len());
    let co: Co = Coroutine::with_stack(stack, move |y: &Yielder<Resume, Yield>, _first: Resume| {
        with_st(|st| st.actors[idx].yielder = y as *const _);
        let r = catch_unwind(AssertUnwindSafe(body));
        if let Err(p) = r {
            let m = explorer::panic_msg(&p);
            with_st(|st| st.actors[idx].panicked = Some(m));
        }
    });
    with_st(|st| {
        st.actors.push(Actor {
            name: name.to_string(),
            kind,
            co: Some(co),
            state: AState::AtBoundary,
            wake: Arc::new(WakeFlag(AtomicBool::new(false))),
            yielder: std::ptr::null(),
            panicked: None,
            points: 0,
            last: "start",
            blocked_at: 0,
        });
    });
    idx
}

/// Whether leaving an actor that sits at an operation boundary is free
/// (default) or costs a preemption like any other switch.
pub fn set_free_boundaries(free: bool) {
    with_st(|st| st.free_boundaries = free);
}

/// In manual mode closures handed to `spawn_blocking` are queued and run by
/// the controller through [`run_job`] / [`run_jobs`] instead of becoming actors.
pub fn set_manual_blocking(on: bool) {
    with_st(|st| st.manual_blocking = on);
}

pub fn pending_jobs() -> usize {
    with_st(|st| st.jobs.len())
}

/// Runs the k-th queued blocking closure on the caller's stack.
pub fn run_job(k: usize) -> bool {
    let j = with_st(|st| st.jobs.remove(k));
    match j {
        Some(j) => {
            j();
            true
        }
        None => false,
    }
}

/// Runs queued blocking closures in FIFO order until none is left.
pub fn run_jobs() -> usize {
    let mut n = 0;
    while run_job(0) {
        n += 1;
    }
    n
}

/// Index of the running actor, if any.
pub fn current() -> Option<usize> {
    try_with_st(|st| st.current).flatten()
}

pub fn actor_name(i: usize) -> String {
    with_st(|st| st.actors[i].name.clone())
}

/// Actors that found a hooked lock held by someone else and had to wait.
pub fn lock_waits() -> Vec<usize> {
    with_st(|st| st.lock_waits.clone())
}

pub fn actor_kind(i: usize) -> ActorKind {
    with_st(|st| st.actors[i].kind)
}

pub fn actor_count() -> usize {
    with_st(|st| st.actors.len())
}

pub fn actor_panicked(i: usize) -> Option<String> {
    with_st(|st| st.actors[i].panicked.clone())
}

pub fn actor_finished(i: usize) -> bool {
    with_st(|st| st.actors[i].state == AState::Finished)
}

#[derive(Clone, Copy, Debug, PartialEq, Eq, Hash)]
pub enum ActorStatus {
    Ready,
    Boundary,
    Blocked,
    ParkedIdle,
    ParkedWoken,
    Finished,
}

pub fn actor_status(i: usize) -> ActorStatus {
    with_st(|st| {
        let a = &st.actors[i];
        match a.state {
            AState::Ready => ActorStatus::Ready,
            AState::AtBoundary => ActorStatus::Boundary,
            AState::Blocked(_) => ActorStatus::Blocked,
            AState::Parked { .. } => {
                if a.wake.0.load(Ordering::SeqCst) {
                    ActorStatus::ParkedWoken
                } else {
                    ActorStatus::ParkedIdle
                }
            }
            AState::Finished => ActorStatus::Finished,
        }
    })
}

pub fn winding_down() -> bool {
    try_with_st(|st| st.winding_down).unwrap_or(false)
}

/// Machinery failure recorded during this execution (never a verdict).
pub fn machinery_error() -> Option<String> {
    try_with_st(|st| st.machinery.clone()).flatten()
}

/// True when some shim mutex is currently held (by anybody).
pub fn any_mutex_held() -> bool {
    try_with_st(|st| !st.held.is_empty()).unwrap_or(false)
}

pub fn mutex_held(id: u64) -> bool {
    try_with_st(|st| st.held.contains_key(&id)).unwrap_or(false)
}

/// Runs `f` without yielding at any point (used by the controller and by
/// oracles that call into the pool).
pub fn atomically<R>(f: impl FnOnce() -> R) -> R {
    let had = try_with_st(|st| {
        st.atomic += 1;
    })
    .is_some();
    struct G(bool);
    impl Drop for G {
        fn drop(&mut self) {
            if self.0 {
                let _ = try_with_st(|st| st.atomic -= 1);
            }
        }
    }
    let _g = G(had);
    f()
}

/// Free switching point between two operations of an actor's script.
pub fn boundary() {
    if can_yield() {
        let _ = suspend(Yield::Boundary);
    }
}

/// Explicit scheduling point inside harness code (manager bodies, closures).
pub fn pause(what: &'static str) {
    if can_yield() {
        with_st(|st| {
            if let Some(c) = st.current {
                st.actors[c].last = what;
            }
        });
        let _ = suspend(Yield::Pause);
    }
}

#[derive(Debug)]
pub struct Cancelled;

/// Polls `fut` to completion on the current actor. Returns `Err(Cancelled)` if
/// the scheduler decided to abandon the future while it was suspended; the
/// future is dropped (on this actor, with scheduling points live) before
/// returning.
pub fn block_on<F: Future>(fut: F, cancellable: bool) -> Result<F::Output, Cancelled> {
    let mut fut: Pin<Box<F>> = Box::pin(fut);
    let cur = current();
    let flag = match cur {
        Some(c) => with_st(|st| st.actors[c].wake.clone()),
        None => Arc::new(WakeFlag(AtomicBool::new(false))),
    };
    let waker = Waker::from(flag.clone());
    let mut cx = Context::from_waker(&waker);
    loop {
        flag.0.store(false, Ordering::SeqCst);
        match fut.as_mut().poll(&mut cx) {
            Poll::Ready(v) => return Ok(v),
            Poll::Pending => {
                if cur.is_some() && can_yield() {
                    match suspend(Yield::Parked { cancellable }) {
                        Resume::Go => continue,
                        Resume::Cancel => {
                            drop(fut);
                            return Err(Cancelled);
                        }
                    }
                } else if cur.is_some() {
                    // atomic wind-down: a pending future is abandoned
                    drop(fut);
                    return Err(Cancelled);
                } else {
                    drop(fut);
                    return Err(Cancelled);
                }
            }
        }
    }
}

/// Polls a boxed future once from the controller (or any context) with a
/// private flag waker. Returns the output if ready.
pub struct Task<T> {
    fut: Option<Pin<Box<dyn Future<Output = T>>>>,
    flag: Arc<WakeFlag>,
    pub polls: u32,
    pub pending_polls: u32,
}

impl<T> Task<T> {
    pub fn new(fut: impl Future<Output = T> + 'static) -> Self {
        Task {
            fut: Some(Box::pin(fut)),
            flag: Arc::new(WakeFlag(AtomicBool::new(true))),
            polls: 0,
            pending_polls: 0,
        }
    }
    pub fn woken(&self) -> bool {
        self.flag.0.load(Ordering::SeqCst)
    }
    pub fn poll(&mut self) -> Option<T> {
        let fut = self.fut.as_mut().expect("task polled after completion");
        self.flag.0.store(false, Ordering::SeqCst);
        let waker = Waker::from(self.flag.clone());
        let mut cx = Context::from_waker(&waker);
        self.polls += 1;
        match fut.as_mut().poll(&mut cx) {
            Poll::Ready(v) => {
                self.fut = None;
                Some(v)
            }
            Poll::Pending => {
                self.pending_polls += 1;
                None
            }
        }
    }
    pub fn cancel(&mut self) {
        self.fut = None;
    }
    pub fn done(&self) -> bool {
        self.fut.is_none()
    }
}

// ---------------------------------------------------------------------
// Gates: environment events completed by the scheduler / controller.

pub struct Gate {
    id: usize,
}

/// Creates a gate. With `auto` the scheduler offers "fire" as a transition once
/// the gate has been polled; otherwise only [`fire_gate`] completes it.
pub fn gate(label: &str, auto: bool) -> Gate {
    let id = with_st(|st| {
        st.gates.push(GateRec {
            label: label.to_string(),
            fired: false,
            waker: None,
            armed: false,
            alive: true,
            auto,
        });
        st.gates.len() - 1
    });
    Gate { id }
}

impl Gate {
    pub fn id(&self) -> usize {
        self.id
    }
}

impl Future for Gate {
    type Output = ();
    fn poll(self: Pin<&mut Self>, cx: &mut Context<'_>) -> Poll<()> {
        let id = self.id;
        with_st(|st| {
            let g = &mut st.gates[id];
            if g.fired {
                Poll::Ready(())
            } else {
                g.waker = Some(cx.waker().clone());
                g.armed = true;
                Poll::Pending
            }
        })
    }
}

impl Drop for Gate {
    fn drop(&mut self) {
        let id = self.id;
        let _ = try_with_st(|st| {
            if let Some(g) = st.gates.get_mut(id) {
                g.alive = false;
                g.waker = None;
            }
        });
    }
}

/// Gates that have been polled, are still awaited and have not fired.
pub fn pending_gates() -> Vec<(usize, String)> {
    with_st(|st| {
        st.gates
            .iter()
            .enumerate()
            .filter(|(_, g)| g.alive && g.armed && !g.fired)
            .map(|(i, g)| (i, g.label.clone()))
            .collect()
    })
}

pub fn fire_gate(id: usize) {
    let w = with_st(|st| {
        let g = &mut st.gates[id];
        g.fired = true;
        g.waker.take()
    });
    if let Some(w) = w {
        w.wake();
    }
}

// ---------------------------------------------------------------------
// Scheduler loop

#[derive(Clone, Debug, PartialEq, Eq)]
pub enum Verdict {
    /// Every actor finished.
    Done,
    /// No transition is enabled; the listed actors are parked in a future
    /// (index, cancellable).
    Quiescent(Vec<usize>),
    /// Some actor waits for a lock that nobody will release.
    Deadlock(String),
    /// Step horizon exceeded.
    Horizon,
    /// The per-step callback asked to stop.
    Stopped,
}

#[derive(Clone, Copy, Debug)]
enum Choice {
    Run(usize),
    Fire(usize),
    Cancel(usize),
    Quiesce,
}

pub struct RunCfg {
    pub horizon: u32,
    /// Offer cancellation of parked cancellable tasks as a fault transition.
    pub cancels: bool,
}

impl Default for RunCfg {
    fn default() -> Self {
        RunCfg {
            horizon: 5000,
            cancels: true,
        }
    }
}

fn resume_actor(i: usize, msg: Resume) {
    let mut co = with_st(|st| {
        st.current = Some(i);
        st.actors[i].co.take().expect("actor coroutine missing")
    });
    let r = co.resume(msg);
    with_st(|st| {
        st.current = None;
        st.progress += 1;
        let progress_now = st.progress;
        let a = &mut st.actors[i];
        match r {
            CoroutineResult::Yield(y) => {
                a.points += 1;
                match y {
                    Yield::Point(op, _) => {
                        a.state = AState::Ready;
                        a.last = op_name(op);
                    }
                    Yield::Pause => a.state = AState::Ready,
                    Yield::Boundary => {
                        a.state = AState::AtBoundary;
                        a.last = "boundary";
                    }
                    Yield::Blocked(m) => {
                        a.state = AState::Blocked(m);
                        a.last = "blocked";
                        a.blocked_at = progress_now;
                    }
                    Yield::Parked { cancellable } => {
                        a.state = AState::Parked { cancellable };
                        a.last = "parked";
                    }
                }
                a.co = Some(co);
            }
            CoroutineResult::Return(()) => {
                a.state = AState::Finished;
                a.last = "finished";
                a.co = Some(co);
            }
        }
    });
}

/// Hash of the scheduler-visible part of the state (actor program counters).
pub fn sched_fingerprint() -> u64 {
    use std::hash::{Hash, Hasher};
    let mut h = std::collections::hash_map::DefaultHasher::new();
    with_st(|st| {
        for a in &st.actors {
            a.points.hash(&mut h);
            std::mem::discriminant(&a.state).hash(&mut h);
            a.wake.0.load(Ordering::SeqCst).hash(&mut h);
        }
        for g in &st.gates {
            (g.fired, g.alive, g.armed).hash(&mut h);
        }
    });
    h.finish()
}

/// Runs actors under the explorer's control until nothing is enabled.
/// `on_step` is called after every transition; returning `false` stops the run.
pub fn run(cfg: &RunCfg, mut on_step: impl FnMut() -> bool) -> Verdict {
    loop {
        // enabled set
        let (enabled, cancels, gates, last, unfinished, blocked_desc) = with_st(|st| {
            let mut enabled = Vec::new();
            let mut cancels = Vec::new();
            let mut unfinished = Vec::new();
            let mut blocked_desc = String::new();
            for (i, a) in st.actors.iter().enumerate() {
                match a.state {
                    AState::Ready | AState::AtBoundary => enabled.push(i),
                    AState::Blocked(m) => {
                        // retry when the engine saw the lock released, and (for
                        // locks it cannot see) only after somebody else has moved
                        if !st.held.contains_key(&m) && st.progress > a.blocked_at {
                            enabled.push(i)
                        } else {
                            blocked_desc = format!("{} waits for a lock", a.name);
                        }
                    }
                    AState::Parked { cancellable } => {
                        if a.wake.0.load(Ordering::SeqCst) {
                            enabled.push(i);
                        }
                        if cancellable {
                            cancels.push(i);
                        }
                    }
                    AState::Finished => {}
                }
                if a.state != AState::Finished {
                    unfinished.push(i);
                }
            }
            let gates: Vec<usize> = st
                .gates
                .iter()
                .enumerate()
                .filter(|(_, g)| g.alive && g.armed && !g.fired && g.auto)
                .map(|(i, _)| i)
                .collect();
            (enabled, cancels, gates, st.last_running, unfinished, blocked_desc)
        });
        if unfinished.is_empty() {
            return Verdict::Done;
        }
        // Is the actor that ran last still enabled, and would leaving it cost?
        let cur_enabled = last.filter(|l| enabled.contains(l));
        let cur_costly = cur_enabled
            .map(|l| with_st(|st| st.actors[l].state != AState::AtBoundary || !st.free_boundaries))
            .unwrap_or(false);
        let mut opts: Vec<Choice> = Vec::new();
        let mut costs: Vec<Cost> = Vec::new();
        let switch_cost = if cur_costly { Cost::P } else { Cost::FREE };
        if let Some(l) = cur_enabled {
            opts.push(Choice::Run(l));
            costs.push(Cost::FREE);
        }
        for &i in &enabled {
            if Some(i) != cur_enabled {
                opts.push(Choice::Run(i));
                costs.push(if opts.len() == 1 { Cost::FREE } else { switch_cost });
            }
        }
        // the first option is always free; other actors are free when the last
        // one is not enabled or sits at a boundary
        for &g in &gates {
            opts.push(Choice::Fire(g));
            costs.push(if opts.len() == 1 { Cost::FREE } else { switch_cost });
        }
        if opts.is_empty() {
            // nothing enabled
            if !blocked_desc.is_empty() {
                return Verdict::Deadlock(blocked_desc);
            }
            if cfg.cancels && !cancels.is_empty() {
                opts.push(Choice::Quiesce);
                costs.push(Cost::FREE);
            } else {
                return Verdict::Quiescent(unfinished);
            }
        }
        if cfg.cancels {
            for &i in &cancels {
                opts.push(Choice::Cancel(i));
                costs.push(Cost {
                    p: switch_cost.p,
                    f: 1,
                });
            }
        }
        let k = explorer::choose(&costs);
        let steps = with_st(|st| {
            st.steps += 1;
            st.steps
        });
        if steps > cfg.horizon {
            return Verdict::Horizon;
        }
        explorer::count_step();
        match opts[k] {
            Choice::Run(i) => {
                trace!("run {} (from {})", actor_name(i), with_st(|st| st.actors[i].last));
                with_st(|st| st.last_running = Some(i));
                resume_actor(i, Resume::Go);
            }
            Choice::Cancel(i) => {
                trace!("cancel {}", actor_name(i));
                with_st(|st| st.last_running = Some(i));
                resume_actor(i, Resume::Cancel);
            }
            Choice::Fire(g) => {
                trace!("fire gate {} ({})", g, with_st(|st| st.gates[g].label.clone()));
                fire_gate(g);
            }
            Choice::Quiesce => {
                return Verdict::Quiescent(unfinished);
            }
        }
        // materialise actors spawned during the step
        if !on_step() {
            return Verdict::Stopped;
        }
    }
}

/// Finishes every unfinished actor without further exploration: parked tasks
/// are cancelled, everybody else simply continues, all in one atomic section.
/// Returns false if some actor could not be finished (still blocked).
pub fn wind_down() -> bool {
    with_st(|st| {
        st.winding_down = true;
        st.atomic += 1;
    });
    let mut ok = true;
    let mut rounds = 0;
    loop {
        rounds += 1;
        if rounds > 10_000 {
            ok = false;
            break;
        }
        // lock owners first, then the lowest unfinished actor that can move
        let next = with_st(|st| {
            for owner in st.held.values().flatten() {
                if st.actors[*owner].state != AState::Finished {
                    return Some(*owner);
                }
            }
            for (i, a) in st.actors.iter().enumerate() {
                match a.state {
                    AState::Finished => {}
                    AState::Blocked(m) => {
                        if !st.held.contains_key(&m) {
                            return Some(i);
                        }
                    }
                    _ => return Some(i),
                }
            }
            None
        });
        let Some(i) = next else { break };
        let s = with_st(|st| st.actors[i].state);
        match s {
            AState::Parked { .. } => resume_actor(i, Resume::Cancel),
            _ => resume_actor(i, Resume::Go),
        }
    }
    let all = with_st(|st| st.actors.iter().all(|a| a.state == AState::Finished));
    with_st(|st| st.atomic -= 1);
    ok && all
}
