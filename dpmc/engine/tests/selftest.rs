//! Engine self-tests: schedule counts against closed forms, a lost update that
//! must be found at p=1 and not at p=0, a toy deadlock, replay identity.
use std::cell::RefCell;
use std::rc::Rc;

use deadpool_runtime::verif::{AtomicUsize, Mutex};
use dpmc::explorer::{self, Config, Outcome, Violation};
use dpmc::sched::{self, RunCfg, Verdict};
use std::sync::atomic::Ordering::SeqCst;
use std::sync::Arc;

fn two_threads_k_steps(k: usize) -> Outcome {
    sched::begin();
    let a = Arc::new(AtomicUsize::new(0));
    for t in 0..2 {
        let a = a.clone();
        sched::spawn(&format!("t{}", t), move || {
            // the first resume runs up to the first point; k points => k+1 segments
            for _ in 0..k {
                a.fetch_add(1, SeqCst);
            }
        });
    }
    let v = sched::run(&RunCfg::default(), || true);
    assert_eq!(v, Verdict::Done);
    let r = a.load_silent();
    sched::end();
    Outcome { obs: r as u64, violations: vec![] }
}

fn binom(n: u64, k: u64) -> u64 {
    let mut r = 1u64;
    for i in 0..k {
        r = r * (n - i) / (i + 1);
    }
    r
}

#[test]
fn schedule_counts_match_closed_form() {
    // Each thread has k points, i.e. k+1 atomic segments (the first one starts
    // at the initial boundary). Unbounded interleavings of two sequences of
    // m = k+1 segments: C(2m, m).
    for k in 1..=4usize {
        let mut cfg = Config::new("toy", 1000, 0);
        cfg.threads = 4;
        let st = explorer::explore(&cfg, || two_threads_k_steps(k));
        let m = (k + 1) as u64;
        assert_eq!(st.executions, binom(2 * m, m), "k={}", k);
        assert!(st.machinery_errors.is_empty());
    }
    // p = 0: the only choices are at the initial boundaries and when a thread
    // finishes: 2 executions (who goes first).
    let cfg = Config::new("toy", 0, 0);
    let st = explorer::explore(&cfg, || two_threads_k_steps(3));
    assert_eq!(st.executions, 2);
}

fn lost_update() -> Outcome {
    sched::begin();
    let a = Arc::new(AtomicUsize::new(0));
    for t in 0..2 {
        let a = a.clone();
        sched::spawn(&format!("t{}", t), move || {
            let v = a.load(SeqCst);
            a.store(v + 1, SeqCst);
        });
    }
    let v = sched::run(&RunCfg::default(), || true);
    assert_eq!(v, Verdict::Done);
    let r = a.load_silent();
    sched::end();
    let mut violations = vec![];
    if r != 2 {
        violations.push(Violation { property: "T".into(), key: "lost".into(), msg: format!("counter {}", r) });
    }
    Outcome { obs: r as u64, violations }
}

#[test]
fn lost_update_needs_one_preemption() {
    let st = explorer::explore(&Config::new("lu", 0, 0), lost_update);
    assert!(st.violations.is_empty());
    let st = explorer::explore(&Config::new("lu", 1, 0), lost_update);
    assert_eq!(st.violations.len(), 1);
    let f = st.violations.values().next().unwrap();
    assert_eq!(f.spent.0, 1);
    // replay identity
    let (o1, t1, c1, d1) = explorer::replay(&f.choices, lost_update);
    let (o2, t2, c2, d2) = explorer::replay(&f.choices, lost_update);
    assert!(d1.is_none() && d2.is_none());
    assert_eq!(t1, t2);
    assert_eq!(c1, c2);
    assert_eq!(o1.unwrap().violations.len(), 1);
    assert_eq!(o2.unwrap().violations.len(), 1);
}

fn ab_ba() -> Outcome {
    sched::begin();
    let m1 = Arc::new(Mutex::new(0u32));
    let m2 = Arc::new(Mutex::new(0u32));
    {
        let (m1, m2) = (m1.clone(), m2.clone());
        sched::spawn("ab", move || {
            let _a = m1.lock().unwrap();
            let _b = m2.lock().unwrap();
        });
    }
    {
        let (m1, m2) = (m1.clone(), m2.clone());
        sched::spawn("ba", move || {
            let _b = m2.lock().unwrap();
            let _a = m1.lock().unwrap();
        });
    }
    let v = sched::run(&RunCfg::default(), || true);
    let dead = matches!(v, Verdict::Deadlock(_));
    sched::end();
    let mut violations = vec![];
    if dead {
        violations.push(Violation { property: "T".into(), key: "deadlock".into(), msg: "deadlock".into() });
    }
    Outcome { obs: dead as u64, violations }
}

#[test]
fn toy_deadlock_found() {
    let st = explorer::explore(&Config::new("abba", 0, 0), ab_ba);
    assert!(st.violations.is_empty());
    let st = explorer::explore(&Config::new("abba", 1, 0), ab_ba);
    assert_eq!(st.violations.len(), 1);
}

#[test]
fn data_choices_enumerate_products() {
    let seen = std::sync::Mutex::new(std::collections::BTreeSet::new());
    let st = explorer::explore(&Config::new("prod", 0, 1), || {
        let a = explorer::choose_free(3);
        let b = explorer::choose_fault(3);
        let c = explorer::choose_fault(2);
        seen.lock().unwrap().insert((a, b, c));
        Outcome { obs: (a * 100 + b * 10 + c) as u64, violations: vec![] }
    });
    // a free (3) x at most one fault among b (2 non-default) and c (1 non-default): 3 * (1 + 2 + 1)
    assert_eq!(st.executions, 12);
    assert_eq!(seen.lock().unwrap().len(), 12);
    let _ = Rc::new(RefCell::new(0));
}
