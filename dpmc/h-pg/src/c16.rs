//! C16: deadpool-postgres health checks, statement cache and cache registry,
//! explored as histories against a scripted PostgreSQL backend that speaks
//! the v3 wire protocol over an in-memory duplex stream.

use std::cell::RefCell;
use std::collections::{BTreeMap, BTreeSet};
use std::future::Future;
use std::hash::{Hash, Hasher};
use std::pin::Pin;
use std::sync::Arc;

use deadpool::managed::{Object, PoolError, Timeouts};
use deadpool_postgres::{ClientWrapper, Connect, Manager, ManagerConfig, Pool, RecyclingMethod};
use dpmc::explorer::{self, choose_free, note_state, Outcome, Violation};
use dpmc::report::{Scenario, Tier};
use dpmc::trace;
use tokio::io::{AsyncReadExt, AsyncWriteExt, DuplexStream};
use tokio::sync::Notify;
use tokio::task::JoinHandle;
use tokio_postgres::types::Type;
use tokio_postgres::{Client as PgClient, Config as PgConfig, Error, NoTls, SimpleQueryMessage};

const IDENT: &str = "--ident";

#[derive(Clone, Debug, PartialEq, Eq, Hash)]
enum Msg {
    Query(String),
    Parse { name: String, query: String, oids: Vec<u32> },
    Other(char),
}

struct Conn {
    log: Vec<Msg>,
    close: bool,
    fail_next: bool,
    fail_code: usize,
    notify: Arc<Notify>,
    server_closed: bool,
    statements: BTreeMap<String, (String, Vec<u32>)>,
}

#[derive(Default)]
struct World {
    conns: Vec<Conn>,
    viol: Vec<Violation>,
    log: Vec<String>,
}

thread_local! {
    static W: RefCell<Option<World>> = const { RefCell::new(None) };
}

fn w<R>(f: impl FnOnce(&mut World) -> R) -> R {
    W.with(|c| f(c.borrow_mut().as_mut().expect("c16 world")))
}

fn bad(key: &str, msg: String) {
    w(|w| {
        if !w.viol.iter().any(|v| v.key == key) {
            w.viol.push(Violation { property: "C16".into(), key: key.into(), msg });
        }
    })
}

// ------------------------------------------------------------------ server

fn put_msg(buf: &mut Vec<u8>, ty: u8, body: &[u8]) {
    buf.push(ty);
    buf.extend_from_slice(&((body.len() + 4) as u32).to_be_bytes());
    buf.extend_from_slice(body);
}

fn ready(buf: &mut Vec<u8>) {
    put_msg(buf, b'Z', b"I");
}

/// (severity, SQLSTATE) of a scripted failure: an internal error, "feature not
/// supported" (what a server or pooler that lacks a statement of the check
/// answers), and a FATAL administrator shutdown notice
const FAIL_CODES: [(&str, &str); 3] = [("ERROR", "XX000"), ("ERROR", "0A000"), ("FATAL", "57P01")];

fn error_response(buf: &mut Vec<u8>, code: usize) {
    let (sev, state) = FAIL_CODES[code % FAIL_CODES.len()];
    let mut b = Vec::new();
    b.extend_from_slice(format!("S{}\0V{}\0C{}\0Mscripted failure\0\0", sev, sev, state).as_bytes());
    put_msg(buf, b'E', &b);
}

fn cstr(b: &[u8], pos: &mut usize) -> String {
    let start = *pos;
    while *pos < b.len() && b[*pos] != 0 {
        *pos += 1;
    }
    let s = String::from_utf8_lossy(&b[start..*pos]).to_string();
    *pos += 1;
    s
}

async fn server(mut io: DuplexStream, id: usize, notify: Arc<Notify>) {
    // startup message: int32 len, int32 protocol, params
    let mut len = [0u8; 4];
    if io.read_exact(&mut len).await.is_err() {
        return;
    }
    let n = u32::from_be_bytes(len) as usize;
    let mut body = vec![0u8; n.saturating_sub(4)];
    if io.read_exact(&mut body).await.is_err() {
        return;
    }
    let mut out = Vec::new();
    put_msg(&mut out, b'R', &0u32.to_be_bytes());
    let mut ps = Vec::new();
    ps.extend_from_slice(b"server_version\015.0\0");
    put_msg(&mut out, b'S', &ps);
    let mut k = Vec::new();
    k.extend_from_slice(&(id as u32 + 1000).to_be_bytes());
    k.extend_from_slice(&7u32.to_be_bytes());
    put_msg(&mut out, b'K', &k);
    ready(&mut out);
    if io.write_all(&out).await.is_err() {
        return;
    }
    loop {
        let mut ty = [0u8; 1];
        tokio::select! {
            biased;
            _ = notify.notified() => {
                if w(|w| w.conns[id].close) {
                    w(|w| w.conns[id].server_closed = true);
                    return;
                }
                continue;
            }
            r = io.read_exact(&mut ty) => {
                if r.is_err() {
                    return;
                }
            }
        }
        let mut len = [0u8; 4];
        if io.read_exact(&mut len).await.is_err() {
            return;
        }
        let n = u32::from_be_bytes(len) as usize;
        let mut body = vec![0u8; n.saturating_sub(4)];
        if io.read_exact(&mut body).await.is_err() {
            return;
        }
        let mut out = Vec::new();
        match ty[0] {
            b'Q' => {
                let mut p = 0;
                let q = cstr(&body, &mut p);
                if q == IDENT {
                    // harness identification query: one row with the connection id
                    let mut rd = Vec::new();
                    rd.extend_from_slice(&1u16.to_be_bytes());
                    rd.extend_from_slice(b"id\0");
                    rd.extend_from_slice(&0u32.to_be_bytes());
                    rd.extend_from_slice(&0u16.to_be_bytes());
                    rd.extend_from_slice(&25u32.to_be_bytes());
                    rd.extend_from_slice(&(-1i16).to_be_bytes());
                    rd.extend_from_slice(&(-1i32).to_be_bytes());
                    rd.extend_from_slice(&0u16.to_be_bytes());
                    put_msg(&mut out, b'T', &rd);
                    let v = id.to_string();
                    let mut dr = Vec::new();
                    dr.extend_from_slice(&1u16.to_be_bytes());
                    dr.extend_from_slice(&(v.len() as u32).to_be_bytes());
                    dr.extend_from_slice(v.as_bytes());
                    put_msg(&mut out, b'D', &dr);
                    put_msg(&mut out, b'C', b"SELECT 1\0");
                    ready(&mut out);
                } else {
                    let fail = w(|w| {
                        w.conns[id].log.push(Msg::Query(q.clone()));
                        std::mem::replace(&mut w.conns[id].fail_next, false)
                    });
                    if fail {
                        let code = w(|w| w.conns[id].fail_code);
                        error_response(&mut out, code);
                    } else if q.trim().is_empty() {
                        put_msg(&mut out, b'I', b"");
                    } else {
                        put_msg(&mut out, b'C', b"SET\0");
                    }
                    ready(&mut out);
                }
            }
            b'P' => {
                let mut p = 0;
                let name = cstr(&body, &mut p);
                let query = cstr(&body, &mut p);
                let nt = u16::from_be_bytes([body[p], body[p + 1]]) as usize;
                p += 2;
                let mut oids = Vec::new();
                for _ in 0..nt {
                    oids.push(u32::from_be_bytes([body[p], body[p + 1], body[p + 2], body[p + 3]]));
                    p += 4;
                }
                let fail = w(|w| {
                    w.conns[id].log.push(Msg::Parse { name: name.clone(), query: query.clone(), oids: oids.clone() });
                    let f = std::mem::replace(&mut w.conns[id].fail_next, false);
                    if !f {
                        w.conns[id].statements.insert(name.clone(), (query.clone(), oids.clone()));
                    }
                    f
                });
                if fail {
                    let code = w(|w| w.conns[id].fail_code);
                    error_response(&mut out, code);
                    // skip to Sync: the client pipelines Describe + Sync; answer them below
                    w(|w| w.conns[id].statements.remove(&name));
                    // mark failure state so Describe is ignored until Sync
                    w(|w| w.conns[id].log.push(Msg::Other('!')));
                } else {
                    put_msg(&mut out, b'1', b"");
                }
            }
            b'D' => {
                let in_error = w(|w| matches!(w.conns[id].log.last(), Some(Msg::Other('!'))));
                if !in_error {
                    let mut p = 1;
                    let name = cstr(&body, &mut p);
                    let (query, oids) = w(|w| w.conns[id].statements.get(&name).cloned().unwrap_or_default());
                    let nparams = (1..=9).filter(|i| query.contains(&format!("${}", i))).count();
                    let mut pd = Vec::new();
                    pd.extend_from_slice(&(nparams as u16).to_be_bytes());
                    for i in 0..nparams {
                        let oid = oids.get(i).copied().filter(|o| *o != 0).unwrap_or(25);
                        pd.extend_from_slice(&oid.to_be_bytes());
                    }
                    put_msg(&mut out, b't', &pd);
                    put_msg(&mut out, b'n', b"");
                }
            }
            b'S' => {
                w(|w| {
                    if matches!(w.conns[id].log.last(), Some(Msg::Other('!'))) {
                        w.conns[id].log.pop();
                    }
                });
                ready(&mut out);
            }
            b'C' => {
                let mut p = 1;
                let name = cstr(&body, &mut p);
                w(|w| {
                    w.conns[id].statements.remove(&name);
                });
                put_msg(&mut out, b'3', b"");
            }
            b'X' => return,
            other => {
                w(|w| w.conns[id].log.push(Msg::Other(other as char)));
            }
        }
        if !out.is_empty() && io.write_all(&out).await.is_err() {
            return;
        }
    }
}

struct FakeConnect;

type BoxFuture<'a, T> = Pin<Box<dyn Future<Output = T> + Send + 'a>>;

impl Connect for FakeConnect {
    fn connect(&self, pg_config: &PgConfig) -> BoxFuture<'_, Result<(PgClient, JoinHandle<()>), Error>> {
        let cfg = pg_config.clone();
        Box::pin(async move {
            let (client_io, server_io) = tokio::io::duplex(1 << 16);
            let notify = Arc::new(Notify::new());
            let id = w(|w| {
                w.conns.push(Conn { log: Vec::new(), close: false, fail_next: false, fail_code: 0, notify: notify.clone(), server_closed: false, statements: BTreeMap::new() });
                w.conns.len() - 1
            });
            drop(tokio::spawn(server(server_io, id, notify)));
            let (client, connection) = cfg.connect_raw(client_io, NoTls).await?;
            let task = tokio::spawn(async move {
                let _ = connection.await;
            });
            Ok((client, task))
        })
    }
}

async fn settle() {
    for _ in 0..12 {
        tokio::task::yield_now().await;
    }
}

async fn ident(c: &ClientWrapper) -> Option<usize> {
    match c.simple_query(IDENT).await {
        Ok(msgs) => {
            for m in msgs {
                if let SimpleQueryMessage::Row(r) = m {
                    return r.get(0).and_then(|s| s.parse().ok());
                }
            }
            None
        }
        Err(_) => None,
    }
}

// ------------------------------------------------------------------ driver

#[derive(Clone, Debug)]
pub struct C16Scenario {
    pub method: usize,
    pub ms: usize,
    pub depth: usize,
    /// offer the tour of prepare routes in pools of two as well (thorough)
    pub routes_everywhere: bool,
}

fn method_of(i: usize) -> RecyclingMethod {
    match i {
        0 => RecyclingMethod::Fast,
        1 => RecyclingMethod::Verified,
        2 => RecyclingMethod::Clean,
        3 => RecyclingMethod::Custom("SELECT custom_check()".into()),
        // a custom statement that is blank: still "the custom SQL", still a round trip
        _ => RecyclingMethod::Custom(" ".into()),
    }
}

const QUERIES: [&str; 2] = ["SELECT $1", "SELECT $1, $2"];

fn types_of(i: usize) -> Vec<Type> {
    match i {
        0 => vec![],
        1 => vec![Type::INT4],
        _ => vec![Type::TEXT],
    }
}

#[derive(Default, Clone)]
struct ClientRef {
    /// reference key set of the statement cache
    keys: BTreeSet<(String, Vec<u32>)>,
    /// number of Query / Parse messages seen when the client was last returned
    mark: usize,
    /// the client must not be handed out again
    doomed: bool,
    left_pool: bool,
}

/// Messages that matter for the oracles: queries and Parse. Transaction
/// control issued by tokio-postgres on behalf of the *user's* transaction
/// (START TRANSACTION / COMMIT / ROLLBACK, the latter also sent lazily when a
/// transaction object is dropped) is the user's traffic, not the pool's.
fn significant(log: &[Msg]) -> Vec<Msg> {
    log.iter()
        .filter(|m| match m {
            Msg::Query(q) => !(matches!(q.as_str(), "BEGIN" | "COMMIT" | "ROLLBACK") || q.starts_with("START TRANSACTION") || q.starts_with("SAVEPOINT ") || q.starts_with("RELEASE ") || q.starts_with("ROLLBACK TO ")),
            Msg::Parse { .. } => true,
            _ => false,
        })
        .cloned()
        .collect()
}

pub fn run_c16(sc: &C16Scenario) -> Outcome {
    W.with(|c| *c.borrow_mut() = Some(World::default()));
    let rt = tokio::runtime::Builder::new_current_thread().enable_time().start_paused(true).build().expect("runtime");
    let obs = rt.block_on(run_inner(sc));
    drop(rt);
    let world = W.with(|c| c.borrow_mut().take()).unwrap();
    Outcome { obs, violations: world.viol }
}

async fn run_inner(sc: &C16Scenario) -> u64 {
    let method = method_of(sc.method);
    // the documented check of each recycling method (written out here, not
    // taken from the code under test)
    let exp_query: Option<String> = match sc.method {
        0 => None,
        1 => Some(String::new()),
        2 => Some("CLOSE ALL; SET SESSION AUTHORIZATION DEFAULT; RESET ALL; UNLISTEN *; SELECT pg_advisory_unlock_all(); DISCARD TEMP; DISCARD SEQUENCES;".to_string()),
        3 => Some("SELECT custom_check()".to_string()),
        _ => Some(" ".to_string()),
    };
    let mut pg = PgConfig::new();
    pg.user("u").dbname("d").host("scripted");
    let mgr = Manager::from_connect(pg, FakeConnect, ManagerConfig { recycling_method: method.clone() });
    let pool: Pool = Pool::builder(mgr).max_size(sc.ms).build().unwrap();
    let nb = Timeouts { wait: Some(std::time::Duration::ZERO), create: None, recycle: None };
    let mut held: Vec<(Object<Manager>, usize)> = Vec::new();
    let mut taken: Vec<(ClientWrapper, usize)> = Vec::new();
    let mut refs: BTreeMap<usize, ClientRef> = BTreeMap::new();
    let mut limit = sc.ms;
    for _ in 0..sc.depth {
        if !w(|w| w.viol.is_empty()) {
            break;
        }
        // operations
        #[derive(Clone, Debug)]
        enum Op {
            Get,
            Return(usize),
            Take(usize),
            Prepare(usize, usize, usize, bool, bool),
            /// two prepares in flight at once on one client (`join!`): for the
            /// same key, or for two keys differing only in their types
            PreparePair(usize, bool),
            /// the same key prepared through every other route to the client's
            /// cache: a nested transaction, a savepoint, a built transaction,
            /// and the GenericClient trait on the client and on a transaction
            PrepareRoutes(usize),
            CacheClear(usize),
            CacheRemove(usize, usize, usize),
            RegClear,
            RegRemove(usize, usize),
            ServerClose(usize),
            /// the server hangs up on a checked-out client; its holder gives it
            /// back and asks for a client again at once, before the runtime has
            /// had more than a few turns
            CloseAndRetry(usize),
            ServerFail(usize),
            RetainNone,
            Resize(usize),
            Stop,
        }
        let mut ops = Vec::new();
        if held.len() < limit {
            ops.push(Op::Get);
        }
        for j in 0..held.len() {
            ops.push(Op::Return(j));
            ops.push(Op::Prepare(j, 0, 1, true, false));
            ops.push(Op::Prepare(j, 0, 2, true, false));
            ops.push(Op::Prepare(j, 0, 0, false, false));
            ops.push(Op::Prepare(j, 1, 1, true, false));
            // through a transaction (shares the client's statement cache)
            ops.push(Op::Prepare(j, 0, 1, true, true));
            ops.push(Op::Prepare(j, 0, 0, false, true));
            ops.push(Op::PreparePair(j, true));
            ops.push(Op::PreparePair(j, false));
            if j == 0 && (sc.ms == 1 || sc.routes_everywhere) {
                ops.push(Op::PrepareRoutes(j));
            }
            ops.push(Op::Take(j));
            if j == 0 {
                ops.push(Op::CloseAndRetry(j));
            }
            ops.push(Op::CacheClear(j));
            ops.push(Op::CacheRemove(j, 0, 1));
        }
        ops.push(Op::RegClear);
        ops.push(Op::RegRemove(0, 1));
        let nconn = w(|w| w.conns.len());
        for i in 0..nconn {
            if !w(|w| w.conns[i].close) && !refs.get(&i).map(|r| r.left_pool && !taken.iter().any(|t| t.1 == i)).unwrap_or(false) {
                ops.push(Op::ServerClose(i));
                ops.push(Op::ServerFail(i));
            }
        }
        ops.push(Op::RetainNone);
        if sc.ms > 1 {
            ops.push(Op::Resize(1));
        }
        ops.push(Op::Stop);
        let op = ops[choose_free(ops.len())].clone();
        trace!("op {:?}", op);
        explorer::count_step();
        w(|w| w.log.push(format!("{:?}", op)));
        match op {
            Op::Stop => break,
            Op::Get => match pool.timeout_get(&nb).await {
                Ok(o) => {
                    let before: Vec<usize> = w(|w| w.conns.iter().map(|c| significant(&c.log).len()).collect());
                    match ident(&o).await {
                        None => {
                            bad("handed-out-dead-client", "get() returned a client whose connection does not answer".into());
                        }
                        Some(id) => {
                            trace!("  get -> connection {}", id);
                            let r = refs.entry(id).or_default().clone();
                            if r.doomed {
                                bad("closed-or-failed-client-reissued", format!("connection {} was closed by the server or failed its health check but was handed out again", id));
                            }
                            if r.left_pool {
                                bad("released-client-reissued", format!("connection {} had left the pool but was handed out", id));
                            }
                            if w(|w| w.conns[id].server_closed) {
                                bad("server-closed-client-reissued", format!("connection {} was closed by the server but handed out", id));
                            }
                            // which check did recycling issue?
                            let sig = w(|w| significant(&w.conns[id].log));
                            let since = &sig[r.mark.min(sig.len())..before[id].min(sig.len())];
                            let reused = r.mark > 0 || before[id] > 0 || refs.get(&id).map(|x| x.mark > 0).unwrap_or(false);
                            let was_returned = w(|w| w.log.iter().any(|l| l == &format!("returned {}", id)));
                            if was_returned {
                                let expect: Vec<Msg> = exp_query.iter().map(|q| Msg::Query(q.clone())).collect();
                                if since != expect.as_slice() {
                                    bad("wrong-recycle-check", format!("recycling connection {} with {:?} issued {:?}, documented {:?}", id, method, since, expect));
                                }
                            }
                            let _ = reused;
                            if o.statement_cache.size() != r.keys.len() {
                                bad("cache-size", format!("statement cache of connection {} reports size {} but {} keys are cached", id, o.statement_cache.size(), r.keys.len()));
                            }
                            held.push((o, id));
                        }
                    }
                }
                Err(PoolError::Backend(e)) => {
                    trace!("  get -> backend error {}", e);
                }
                Err(e) => bad("get-failed", format!("get() with a free slot failed: {:?}", e)),
            },
            Op::Return(j) => {
                let (o, id) = held.remove(j);
                let sig = w(|w| significant(&w.conns[id].log).len());
                refs.get_mut(&id).unwrap().mark = sig;
                w(|w| w.log.push(format!("returned {}", id)));
                drop(o);
                settle().await;
            }
            Op::Take(j) => {
                let (o, id) = held.remove(j);
                let cw = Object::take(o);
                refs.get_mut(&id).unwrap().left_pool = true;
                if Arc::weak_count(&cw.statement_cache) != 0 {
                    bad("taken-client-still-registered", format!("connection {} was taken but the registry still refers to its statement cache", id));
                }
                taken.push((cw, id));
            }
            Op::Prepare(j, qi, ti, typed, in_tx) => {
                let (o, id) = &mut held[j];
                let id = *id;
                let q = QUERIES[qi];
                let types = if typed { types_of(ti) } else { vec![] };
                let key = (q.to_string(), types.iter().map(|t| t.oid()).collect::<Vec<u32>>());
                let before = w(|w| significant(&w.conns[id].log));
                let raw_before = w(|w| w.conns[id].log.len());
                let r = if in_tx {
                    match o.transaction().await {
                        Ok(tx) => {
                            let r = if typed { tx.prepare_typed_cached(q, &types).await } else { tx.prepare_cached(q).await };
                            let _ = tx.commit().await;
                            r
                        }
                        Err(e) => Err(e),
                    }
                } else if typed {
                    o.prepare_typed_cached(q, &types).await
                } else {
                    o.prepare_cached(q).await
                };
                let after: Vec<Msg> = w(|w| significant(&w.conns[id].log));
                let others_changed = false;
                let _ = others_changed;
                let hit = refs[&id].keys.contains(&key);
                match r {
                    Ok(stmt) => {
                        let new: Vec<Msg> = after[before.len()..].to_vec();
                        if hit {
                            if !new.is_empty() {
                                bad("cache-hit-round-trip", format!("cached statement {:?} caused server traffic {:?}", key, new));
                            }
                        } else {
                            let ok = new.len() == 1 && matches!(&new[0], Msg::Parse { query, oids, .. } if query == q && *oids == key.1);
                            if !ok {
                                bad("cache-miss-prepare", format!("preparing {:?} on connection {} sent {:?}", key, id, new));
                            }
                            refs.get_mut(&id).unwrap().keys.insert(key.clone());
                        }
                        // the statement must be the one prepared for exactly this key on this connection
                        let want: Vec<u32> = {
                            let n = (1..=9).filter(|i| q.contains(&format!("${}", i))).count();
                            (0..n).map(|i| key.1.get(i).copied().unwrap_or(25)).collect()
                        };
                        let got: Vec<u32> = stmt.params().iter().map(|t| t.oid()).collect();
                        if got != want {
                            bad("wrong-statement", format!("prepare for {:?} returned a statement with parameter types {:?}", key, got));
                        }
                    }
                    Err(e) => {
                        trace!("  prepare failed: {}", e);
                        if w(|w| w.conns[id].log.len()) == raw_before && !w(|w| w.conns[id].close) {
                            bad("prepare-error-without-traffic", format!("prepare failed without talking to the server: {}", e));
                        }
                    }
                }
                if o.statement_cache.size() != refs[&id].keys.len() {
                    bad("cache-size", format!("statement cache of connection {} reports size {} but {} keys are cached", id, o.statement_cache.size(), refs[&id].keys.len()));
                }
            }
            Op::PrepareRoutes(j) => {
                use deadpool_postgres::GenericClient;
                let (o, id) = &mut held[j];
                let id = *id;
                let q = QUERIES[1];
                let types = types_of(2);
                let key = (q.to_string(), types.iter().map(|t| t.oid()).collect::<Vec<u32>>());
                let n_params = (1..=9).filter(|i| q.contains(&format!("${}", i))).count();
                let want: Vec<u32> = (0..n_params).map(|i| key.1.get(i).copied().unwrap_or(25)).collect();
                for route in 0..5u8 {
                    let before = w(|w| significant(&w.conns[id].log));
                    let r: Result<tokio_postgres::Statement, Error> = match route {
                        0 => match o.transaction().await {
                            Ok(mut tx) => {
                                let r = match tx.transaction().await {
                                    Ok(inner) => {
                                        let r = inner.prepare_typed_cached(q, &types).await;
                                        let _ = inner.commit().await;
                                        r
                                    }
                                    Err(e) => Err(e),
                                };
                                let _ = tx.commit().await;
                                r
                            }
                            Err(e) => Err(e),
                        },
                        1 => match o.transaction().await {
                            Ok(mut tx) => {
                                let r = match tx.savepoint("sp").await {
                                    Ok(sp) => {
                                        let r = sp.prepare_typed_cached(q, &types).await;
                                        let _ = sp.commit().await;
                                        r
                                    }
                                    Err(e) => Err(e),
                                };
                                let _ = tx.commit().await;
                                r
                            }
                            Err(e) => Err(e),
                        },
                        2 => match o.build_transaction().read_only(true).start().await {
                            Ok(tx) => {
                                let r = tx.prepare_typed_cached(q, &types).await;
                                let _ = tx.commit().await;
                                r
                            }
                            Err(e) => Err(e),
                        },
                        3 => {
                            let c: &Object<Manager> = o;
                            GenericClient::prepare_typed_cached(c, q, &types).await
                        }
                        _ => match o.transaction().await {
                            Ok(tx) => {
                                let r = GenericClient::prepare_typed_cached(&tx, q, &types).await;
                                let _ = tx.commit().await;
                                r
                            }
                            Err(e) => Err(e),
                        },
                    };
                    let after: Vec<Msg> = w(|w| significant(&w.conns[id].log));
                    let new: Vec<Msg> = after[before.len().min(after.len())..].to_vec();
                    let hit = refs[&id].keys.contains(&key);
                    match r {
                        Ok(stmt) => {
                            if hit && !new.is_empty() {
                                bad("cache-hit-round-trip", format!("route {}: cached statement {:?} caused server traffic {:?}", route, key, new));
                            }
                            if !hit {
                                let ok = new.len() == 1 && matches!(&new[0], Msg::Parse { query, oids, .. } if query == q && *oids == key.1);
                                if !ok {
                                    bad("cache-miss-prepare", format!("route {}: preparing {:?} on connection {} sent {:?}", route, key, id, new));
                                }
                                refs.get_mut(&id).unwrap().keys.insert(key.clone());
                            }
                            let got: Vec<u32> = stmt.params().iter().map(|t| t.oid()).collect();
                            if got != want {
                                bad("wrong-statement", format!("route {}: prepare for {:?} returned a statement with parameter types {:?}", route, key, got));
                            }
                        }
                        Err(e) => {
                            trace!("  route {} prepare failed: {}", route, e);
                            // the connection is gone or the scripted failure hit this
                            // route: re-synchronise the reference and stop the tour
                            o.statement_cache.clear();
                            refs.get_mut(&id).unwrap().keys.clear();
                            break;
                        }
                    }
                    if o.statement_cache.size() != refs[&id].keys.len() {
                        bad("cache-size", format!("route {}: statement cache of connection {} reports size {} but {} keys are cached", route, id, o.statement_cache.size(), refs[&id].keys.len()));
                    }
                }
            }
            Op::PreparePair(j, same) => {
                let (o, id) = &mut held[j];
                let id = *id;
                let q = QUERIES[0];
                let (ta, tb) = (types_of(1), if same { types_of(1) } else { types_of(2) });
                let ka = (q.to_string(), ta.iter().map(|t| t.oid()).collect::<Vec<u32>>());
                let kb = (q.to_string(), tb.iter().map(|t| t.oid()).collect::<Vec<u32>>());
                let before = w(|w| significant(&w.conns[id].log));
                let (ra, rb) = tokio::join!(o.prepare_typed_cached(q, &ta), o.prepare_typed_cached(q, &tb));
                let after: Vec<Msg> = w(|w| significant(&w.conns[id].log));
                let new: Vec<Msg> = after[before.len()..].to_vec();
                let hits = usize::from(refs[&id].keys.contains(&ka)) + usize::from(refs[&id].keys.contains(&kb));
                if let (Ok(sa), Ok(sb)) = (&ra, &rb) {
                    // a cached key causes no traffic; an uncached one is prepared
                    // (once per call that missed)
                    let parses = new.iter().filter(|m| matches!(m, Msg::Parse { query, .. } if query == q)).count();
                    if parses != new.len() || parses > 2 - hits || (hits < 2 && parses == 0) {
                        bad("concurrent-prepare-traffic", format!("two concurrent prepares ({} already cached) on connection {} sent {:?}", hits, id, new));
                    }
                    refs.get_mut(&id).unwrap().keys.insert(ka.clone());
                    refs.get_mut(&id).unwrap().keys.insert(kb.clone());
                    for (stmt, key) in [(sa, &ka), (sb, &kb)] {
                        let n = (1..=9).filter(|i| q.contains(&format!("${}", i))).count();
                        let want: Vec<u32> = (0..n).map(|i| key.1.get(i).copied().unwrap_or(25)).collect();
                        let got: Vec<u32> = stmt.params().iter().map(|t| t.oid()).collect();
                        if got != want {
                            bad("wrong-statement", format!("concurrent prepare for {:?} returned a statement with parameter types {:?}", key, got));
                        }
                    }
                    if o.statement_cache.size() != refs[&id].keys.len() {
                        bad("cache-size", format!("after two concurrent prepares the statement cache of connection {} reports size {} but {} keys are cached", id, o.statement_cache.size(), refs[&id].keys.len()));
                    }
                } else {
                    trace!("  concurrent prepare failed");
                    // which of the two keys got cached is not determined: forget both
                    // and re-synchronise the reference with a cache clear
                    o.statement_cache.clear();
                    refs.get_mut(&id).unwrap().keys.clear();
                }
            }
            Op::CacheClear(j) => {
                let (o, id) = &held[j];
                o.statement_cache.clear();
                refs.get_mut(id).unwrap().keys.clear();
                if o.statement_cache.size() != 0 {
                    bad("cache-size", "size() != 0 after clear()".into());
                }
                settle().await;
            }
            Op::CacheRemove(j, qi, ti) => {
                let (o, id) = &held[j];
                let key = (QUERIES[qi].to_string(), types_of(ti).iter().map(|t| t.oid()).collect::<Vec<u32>>());
                let had = refs.get_mut(id).unwrap().keys.remove(&key);
                let r = o.statement_cache.remove(QUERIES[qi], &types_of(ti));
                if r.is_some() != had {
                    bad("cache-remove", format!("remove({:?}) returned {:?}, cached: {}", key, r.is_some(), had));
                }
                if o.statement_cache.size() != refs[id].keys.len() {
                    bad("cache-size", "size() wrong after remove()".into());
                }
                settle().await;
            }
            Op::RegClear | Op::RegRemove(_, _) => {
                let key = match &op {
                    Op::RegRemove(qi, ti) => Some((QUERIES[*qi].to_string(), types_of(*ti).iter().map(|t| t.oid()).collect::<Vec<u32>>())),
                    _ => None,
                };
                match &op {
                    Op::RegRemove(qi, ti) => pool.manager().statement_caches.remove(QUERIES[*qi], &types_of(*ti)),
                    _ => pool.manager().statement_caches.clear(),
                }
                // exactly the clients the pool owns are reached
                for (id, r) in refs.iter_mut() {
                    if !r.left_pool {
                        match &key {
                            Some(k) => {
                                r.keys.remove(k);
                            }
                            None => r.keys.clear(),
                        }
                    }
                    let _ = id;
                }
                for (o, id) in &held {
                    if o.statement_cache.size() != refs[id].keys.len() {
                        bad("registry-missed-owned-client", format!("registry operation did not reach checked-out connection {}: size {} expected {}", id, o.statement_cache.size(), refs[id].keys.len()));
                    }
                }
                for (cw, id) in &taken {
                    if cw.statement_cache.size() != refs[id].keys.len() {
                        bad("registry-reached-taken-client", format!("registry operation changed the cache of taken connection {}", id));
                    }
                }
                settle().await;
            }
            Op::ServerClose(i) => {
                let n = w(|w| {
                    w.conns[i].close = true;
                    w.conns[i].notify.clone()
                });
                n.notify_one();
                settle().await;
                if let Some(r) = refs.get_mut(&i) {
                    if !r.left_pool {
                        r.doomed = true;
                    }
                }
            }
            Op::CloseAndRetry(j) => {
                let (o, id) = held.remove(j);
                let n = w(|w| {
                    w.conns[id].close = true;
                    w.conns[id].notify.clone()
                });
                n.notify_one();
                // the holder runs as a task of its own: either it has a request in
                // flight when the connection dies (it is then woken by the dying
                // connection itself and retries in that very turn), or it is idle
                // and notices 1-3 runtime turns later
                let in_flight = choose_free(2) == 1;
                let turns = if in_flight { 0 } else { 1 + choose_free(3) };
                let sig = w(|w| significant(&w.conns[id].log).len());
                refs.get_mut(&id).unwrap().mark = sig;
                let p2 = pool.clone();
                let holder = tokio::spawn(async move {
                    if in_flight {
                        let _ = o.simple_query("SELECT 'in flight'").await;
                    } else {
                        for _ in 0..turns {
                            tokio::task::yield_now().await;
                        }
                    }
                    drop(o);
                    match p2.timeout_get(&nb).await {
                        // what the client itself already knows the pool must know too
                        Ok(o2) => PgClient::is_closed(&o2),
                        // (no slot after a shrink, a failing replacement: not judged here)
                        Err(_) => false,
                    }
                });
                if let Ok(true) = holder.await {
                    bad("closed-client-handed-out", format!("connection {} was closed by the server; its holder (request in flight: {}, {} turns later) asked again and get() handed out a client that reports is_closed()", id, in_flight, turns));
                }
                settle().await;
                if let Some(r) = refs.get_mut(&id) {
                    if !r.left_pool {
                        r.doomed = true;
                    }
                }
                // whatever came back is idle again: its traffic mark is taken afresh
                let marks: Vec<(usize, usize)> = w(|w| w.conns.iter().enumerate().map(|(i, c)| (i, significant(&c.log).len())).collect());
                for (i, m) in marks {
                    if let Some(r) = refs.get_mut(&i) {
                        if !held.iter().any(|h| h.1 == i) {
                            r.mark = m;
                        }
                    }
                }
            }
            Op::ServerFail(i) => {
                // which error the server will answer with is part of the history
                let code = choose_free(FAIL_CODES.len());
                w(|w| {
                    w.conns[i].fail_next = true;
                    w.conns[i].fail_code = code;
                });
            }
            Op::RetainNone => {
                let r = pool.retain(|_, _| false);
                for cw in r.removed {
                    // which connection? ask it (it is ours now)
                    if Arc::weak_count(&cw.statement_cache) != 0 {
                        bad("retained-out-client-still-registered", "a client removed by retain() is still in the registry".into());
                    }
                    if let Some(id) = ident(&cw).await {
                        refs.entry(id).or_default().left_pool = true;
                        taken.push((cw, id));
                    }
                }
            }
            Op::Resize(n) => {
                pool.resize(n);
                limit = n;
                settle().await;
            }
        }
        // a failing health check dooms the client: fail_next armed + a method that queries
        // (resolved lazily: if the next recycle consumes the failure the client must vanish)
        for (id, r) in refs.iter_mut() {
            let armed = w(|w| w.conns[*id].fail_next);
            if armed && exp_query.is_some() && !held.iter().any(|h| h.1 == *id) && !r.left_pool {
                // idle client with an armed failure: its next recycle must reject it
                r.doomed = true;
            }
        }
        let mut h = std::collections::hash_map::DefaultHasher::new();
        (held.iter().map(|x| x.1).collect::<Vec<_>>(), taken.iter().map(|x| x.1).collect::<Vec<_>>()).hash(&mut h);
        for (id, r) in &refs {
            (id, &r.keys, r.doomed, r.left_pool).hash(&mut h);
        }
        w(|w| {
            for c in &w.conns {
                (c.close, c.fail_next, significant(&c.log).len()).hash(&mut h);
            }
        });
        (pool.status().size, pool.status().available, sc.method).hash(&mut h);
        note_state(h.finish());
    }
    // registry must not keep entries of clients that left the pool: weak counts
    for (cw, id) in &taken {
        if Arc::weak_count(&cw.statement_cache) != 0 {
            bad("left-client-still-registered", format!("connection {} left the pool but is still registered", id));
        }
    }
    for (o, id) in &held {
        if Arc::weak_count(&o.statement_cache) != 1 {
            bad("owned-client-not-registered", format!("checked-out connection {} has {} registry entries", id, Arc::weak_count(&o.statement_cache)));
        }
    }
    drop(held);
    drop(taken);
    settle().await;
    drop(pool);
    settle().await;
    let mut h = std::collections::hash_map::DefaultHasher::new();
    w(|w| w.log.hash(&mut h));
    sc.method.hash(&mut h);
    h.finish()
}

pub fn scenarios(tier: Tier) -> Vec<Scenario> {
    let thorough = tier == Tier::Thorough;
    let mut v = Vec::new();
    for method in 0..5usize {
        for ms in [1usize, 2] {
            let depth = match (thorough, ms) {
                // quick: full depth for two of the five methods (the cache and
                // registry logic does not depend on the method), one step less
                // for the other three
                (false, 1) => if method == 0 || method == 3 { 5 } else { 4 },
                (false, _) => 4,
                (true, 1) => 8,
                (true, _) => 6,
            };
            let sc = C16Scenario { method, ms, depth, routes_everywhere: thorough };
            v.push(Scenario::new(
                &format!("histories/{:?}/ms{}", method_of(method), ms).replace("(\"SELECT custom_check()\")", "").replace("(\" \")", "-blank"),
                "every history of get / return / take / retain / resize / prepare_cached / prepare_typed_cached (keys differing only in types) / cache clear+remove / registry clear+remove / server closes a connection / server fails the next query",
                0,
                0,
                move || run_c16(&sc),
            ));
        }
    }
    v
}

// ------------------------------------------------------------------
// Thread level: statement-cache and registry calls made from several threads
// at once. The caches' lock and size counter and the registry's mutex are shim
// types in the verification build (hook commit "statement cache and registry
// locks"), so the explorer interleaves these calls at every lock and counter
// operation. Set-up (connect, prepare two keys) runs at task level against the
// scripted backend; the explored phase consists of calls that need no server.

#[derive(Clone, Debug)]
pub enum TOp {
    /// `client.statement_cache.remove(key)`
    CacheRemove(usize, usize),
    /// `client.statement_cache.clear()`
    CacheClear(usize),
    /// `manager.statement_caches.remove(key)`
    RegRemove(usize),
    /// `manager.statement_caches.clear()`
    RegClear,
    /// `client.statement_cache.size()`
    Size(usize),
    /// `Object::take(client)`
    Take(usize),
    /// `client.prepare_typed_cached(key)` - a miss goes to the scripted server:
    /// the calling thread drives the tokio runtime itself (`block_on`), so at
    /// most one thread of a scenario prepares
    Prepare(usize, usize),
}

#[derive(Clone, Debug)]
pub struct C16TScenario {
    pub actors: Vec<Vec<TOp>>,
}

fn tkey(k: usize) -> (&'static str, Vec<Type>) {
    match k {
        0 => (QUERIES[0], vec![]),
        1 => (QUERIES[0], vec![Type::INT4]),
        // not cached by the set-up
        _ => (QUERIES[1], vec![]),
    }
}
const TKEYS: usize = 3;

struct TRec {
    op: TOp,
    start: u32,
    end: u32,
    hit: bool,
    size: usize,
}

pub fn run_c16_threads(sc: &C16TScenario) -> Outcome {
    use dpmc::sched::{self, RunCfg, Verdict};
    use std::rc::Rc;
    sched::begin();
    W.with(|c| *c.borrow_mut() = Some(World::default()));
    let rt = Rc::new(tokio::runtime::Builder::new_current_thread().enable_time().start_paused(true).build().expect("runtime"));
    // keys cached at the start: client 0 holds keys 0 and 1, client 1 holds key 0
    let initial: [Vec<usize>; 2] = [vec![0, 1], vec![0]];
    let (pool, objs) = rt.block_on(async {
        let mut pg = PgConfig::new();
        pg.user("u").dbname("d").host("scripted");
        let mgr = Manager::from_connect(pg, FakeConnect, ManagerConfig { recycling_method: RecyclingMethod::Fast });
        let pool: Pool = Pool::builder(mgr).max_size(2).build().unwrap();
        let mut objs = Vec::new();
        for keys in initial.iter() {
            let c = pool.get().await.expect("set-up get");
            for k in keys {
                let (q, t) = tkey(*k);
                c.prepare_typed_cached(q, &t).await.expect("set-up prepare");
            }
            objs.push(c);
        }
        (pool, objs)
    });
    let caches: Vec<Arc<deadpool_postgres::StatementCache>> = objs.iter().map(|c| c.statement_cache.clone()).collect();
    // (a cache that is already wrong after the set-up is reported by the
    // task-level histories; here it only makes the expectations below moot)
    let setup_ok = caches.iter().zip(initial.iter()).all(|(c, keys)| c.size() == keys.len());
    let objs: Rc<RefCell<Vec<Option<Object<Manager>>>>> = Rc::new(RefCell::new(objs.into_iter().map(Some).collect()));
    let taken: Rc<RefCell<Vec<(usize, ClientWrapper)>>> = Rc::new(RefCell::new(Vec::new()));
    let recs: Rc<RefCell<Vec<TRec>>> = Rc::new(RefCell::new(Vec::new()));
    let tick: Rc<std::cell::Cell<u32>> = Rc::new(std::cell::Cell::new(0));
    for (ai, script) in sc.actors.iter().enumerate() {
        if !setup_ok {
            bad("cache-size", "after the set-up prepares (two keys on client 0, one on client 1) size() is not 2 and 1".into());
            break;
        }
        let script = script.clone();
        let (pool, caches, objs, taken, recs, tick, rt) = (pool.clone(), caches.clone(), objs.clone(), taken.clone(), recs.clone(), tick.clone(), rt.clone());
        sched::spawn(&format!("thread{}", ai), move || {
            for op in script {
                sched::boundary();
                tick.set(tick.get() + 1);
                let start = tick.get();
                trace!("thread{}: {:?}", ai, op);
                let (mut hit, mut size) = (false, 0usize);
                match &op {
                    TOp::CacheRemove(c, k) => {
                        let (q, t) = tkey(*k);
                        hit = caches[*c].remove(q, &t).is_some();
                    }
                    TOp::CacheClear(c) => caches[*c].clear(),
                    TOp::RegRemove(k) => {
                        let (q, t) = tkey(*k);
                        pool.manager().statement_caches.remove(q, &t);
                    }
                    TOp::RegClear => pool.manager().statement_caches.clear(),
                    TOp::Size(c) => size = caches[*c].size(),
                    TOp::Prepare(c, k) => {
                        let (q, t) = tkey(*k);
                        // the client is only borrowed for the call; nobody takes
                        // a client that a scenario prepares on
                        let guard = objs.borrow();
                        if let Some(o) = guard[*c].as_ref() {
                            let cw: &ClientWrapper = o;
                            // SAFETY of the borrow: `objs` is not mutated while this
                            // thread is suspended inside the call (scenario shape)
                            hit = rt.block_on(cw.prepare_typed_cached(q, &t)).is_ok();
                        }
                    }
                    TOp::Take(c) => {
                        let o = objs.borrow_mut()[*c].take();
                        if let Some(o) = o {
                            let cw = Object::take(o);
                            taken.borrow_mut().push((*c, cw));
                            hit = true;
                        }
                    }
                }
                tick.set(tick.get() + 1);
                trace!("thread{}: {:?} -> hit {} size {}", ai, op, hit, size);
                recs.borrow_mut().push(TRec { op, start, end: tick.get(), hit, size });
            }
        });
    }
    let recs2 = recs.clone();
    let caches2 = caches.clone();
    let verdict = sched::run(&RunCfg { horizon: 3000, cancels: false }, || {
        let mut h = std::collections::hash_map::DefaultHasher::new();
        for r in recs2.borrow().iter() {
            (format!("{:?}", r.op), r.hit, r.size).hash(&mut h);
        }
        let _ = &caches2;
        sched::sched_fingerprint().hash(&mut h);
        note_state(h.finish());
        sched::machinery_error().is_none()
    });
    let mut machinery = sched::machinery_error();
    match &verdict {
        Verdict::Done => {}
        Verdict::Deadlock(d) => bad("deadlock", format!("cache / registry calls deadlock: {}", d)),
        Verdict::Horizon => bad("livelock", "step horizon exceeded".into()),
        other => {
            if machinery.is_none() {
                machinery = Some(format!("unexpected verdict {:?}", other));
            }
        }
    }
    for i in 0..sched::actor_count() {
        if let Some(m) = sched::actor_panicked(i) {
            bad("panic-in-cache-call", format!("{} panicked: {}", sched::actor_name(i), m));
        }
    }
    if setup_ok && matches!(verdict, Verdict::Done) && machinery.is_none() && w(|w| w.viol.is_empty()) {
        let recs = recs.borrow();
        // a statement can be handed back by remove() only once
        let prepares = |c: usize, k: usize| recs.iter().filter(|r| matches!(&r.op, TOp::Prepare(cc, kk) if *cc == c && *kk == k)).count();
        for c in 0..2 {
            for k in 0..TKEYS {
                let n = recs.iter().filter(|r| matches!(&r.op, TOp::CacheRemove(cc, kk) if *cc == c && *kk == k) && r.hit).count();
                if n > 1 + prepares(c, k) {
                    bad("statement-removed-twice", format!("{} remove() calls returned the one cached statement of client {} key {}", n, c, k));
                }
            }
        }
        // size() read while the calls were running: never more than the keys
        // that were cached (nothing is inserted in this phase)
        for r in recs.iter() {
            if let TOp::Size(c) = r.op {
                let most = initial[c].len() + (0..TKEYS).filter(|k| !initial[c].contains(k) && prepares(c, *k) > 0).count();
                if r.size > most {
                    bad("cache-size-exceeds-keys", format!("size() of client {} read {} while at most {} keys were cached", c, r.size, most));
                }
            }
        }
        let take_of = |c: usize| recs.iter().find(|r| matches!(r.op, TOp::Take(cc) if cc == c) && r.hit).map(|r| (r.start, r.end));
        // clients still owned by the pool first: the registry probe made for a
        // taken client clears their caches
        let mut order: Vec<usize> = (0..2).filter(|c| take_of(*c).is_none()).collect();
        order.extend((0..2).filter(|c| take_of(*c).is_some()));
        for c in order {
            // which keys must be gone / must still be there / may be either
            let mut expect: Vec<Option<bool>> = Vec::new(); // Some(true) present, Some(false) absent, None either
            for k in 0..TKEYS {
                if prepares(c, k) > 0 {
                    // prepared (again) while removes / clears ran: either
                    expect.push(None);
                    continue;
                }
                if !initial[c].contains(&k) {
                    expect.push(Some(false));
                    continue;
                }
                let mut e = Some(true);
                for r in recs.iter() {
                    let covers = match &r.op {
                        TOp::CacheRemove(cc, kk) => *cc == c && *kk == k,
                        TOp::CacheClear(cc) => *cc == c,
                        TOp::RegRemove(kk) => *kk == k,
                        TOp::RegClear => true,
                        _ => false,
                    };
                    if !covers {
                        continue;
                    }
                    let registry = matches!(r.op, TOp::RegRemove(_) | TOp::RegClear);
                    match (registry, take_of(c)) {
                        // registry call that began after the take had returned: must not reach the client
                        (true, Some((_, te))) if r.start > te => {}
                        // overlapping the take: either
                        (true, Some((ts, _))) if r.end > ts => {
                            if e == Some(true) {
                                e = None
                            }
                        }
                        _ => e = Some(false),
                    }
                }
                expect.push(e);
            }
            let was_taken = take_of(c).is_some();
            let size = caches[c].size();
            let mut present = Vec::new();
            if was_taken {
                // the registry must no longer address a client that was taken
                pool.manager().statement_caches.clear();
                if caches[c].size() != size {
                    bad("registry-reached-taken-client", format!("statement_caches.clear() after client {} was taken changed its cache size from {} to {}", c, size, caches[c].size()));
                }
            }
            for k in 0..TKEYS {
                let (q, t) = tkey(k);
                present.push(caches[c].remove(q, &t).is_some());
            }
            let n = present.iter().filter(|p| **p).count();
            if size != n {
                bad("cache-size", format!("at rest: size() of client {} is {} but {} keys are cached", c, size, n));
            }
            if caches[c].size() != 0 {
                bad("cache-size", format!("at rest: every key of client {} was removed but size() is {}", c, caches[c].size()));
            }
            for k in 0..TKEYS {
                match expect[k] {
                    Some(true) if !present[k] => bad("cached-statement-lost", format!("client {} key {}: no call removed it but it is no longer cached", c, k)),
                    Some(false) if present[k] => {
                        let key = if recs.iter().any(|r| matches!(r.op, TOp::RegRemove(_) | TOp::RegClear)) && !recs.iter().any(|r| matches!(&r.op, TOp::CacheRemove(cc, _) | TOp::CacheClear(cc) if *cc == c)) { "registry-missed-owned-client" } else { "removed-statement-still-cached" };
                        bad(key, format!("client {} key {} is still cached although a completed remove / clear covered it", c, k))
                    }
                    _ => {}
                }
            }
        }
    }
    let ok = sched::wind_down();
    if !ok && machinery.is_none() && matches!(verdict, Verdict::Done) {
        machinery = Some("wind-down incomplete".into());
    }
    let mut h = std::collections::hash_map::DefaultHasher::new();
    for r in recs.borrow().iter() {
        (format!("{:?}", r.op), r.hit, r.size, r.start, r.end).hash(&mut h);
    }
    drop(taken);
    drop(objs);
    drop(caches);
    drop(pool);
    drop(rt);
    let world = W.with(|c| c.borrow_mut().take()).unwrap();
    let mut violations = world.viol;
    if let Some(m) = machinery {
        violations.push(Violation { property: "MACHINERY".into(), key: "machinery".into(), msg: m });
    }
    sched::end();
    Outcome { obs: h.finish(), violations }
}

pub fn thread_scenarios(tier: Tier) -> Vec<Scenario> {
    use TOp::*;
    let thorough = tier == Tier::Thorough;
    let p = if thorough { 3 } else { 2 };
    let mut v = Vec::new();
    let mut add = |name: &str, about: &str, p: u32, actors: Vec<Vec<TOp>>| {
        let sc = C16TScenario { actors };
        v.push(Scenario::new(&format!("threads/{}", name), about, p, 0, move || run_c16_threads(&sc)));
    };
    add("remove-vs-remove", "two threads remove the same key from one cache while a third reads size()", p, vec![vec![CacheRemove(0, 0)], vec![CacheRemove(0, 0), CacheRemove(0, 1)], vec![Size(0), Size(0)]]);
    add("remove-vs-clear", "remove() racing with clear() on one cache", p, vec![vec![CacheRemove(0, 0), Size(0)], vec![CacheClear(0), Size(0)]]);
    add("registry-vs-cache", "registry remove() / clear() racing with remove() on the clients' own caches", p, vec![vec![RegRemove(0), Size(1)], vec![CacheRemove(0, 0), CacheRemove(1, 0)], vec![RegClear]]);
    add("registry-vs-take", "registry remove() and clear() racing with Object::take() of one client (its cache leaves the registry)", p, vec![vec![RegRemove(0), RegClear], vec![Take(1)], vec![Size(0)]]);
    add("prepare-vs-clear", "a prepare that misses (round trip to the scripted server, then insert) racing with clear() on the cache and through the registry", p, vec![vec![Prepare(0, 2), Size(0)], vec![CacheClear(0)], vec![RegClear]]);
    add("prepare-vs-remove", "a miss and a hit racing with remove() of the same keys", p, vec![vec![Prepare(0, 2), Prepare(0, 0)], vec![CacheRemove(0, 2), CacheRemove(0, 0), Size(0)]]);
    if thorough {
        add("registry-vs-registry", "two registry calls and two cache calls at once", p, vec![vec![RegRemove(0)], vec![RegRemove(0), RegRemove(1)], vec![CacheClear(1), Take(0)]]);
        add("four-threads", "remove, clear, registry remove and take on four threads", 2, vec![vec![CacheRemove(0, 1)], vec![CacheClear(0)], vec![RegRemove(1)], vec![Take(0)]]);
        // every assignment of a script alphabet to three threads (modulo renaming)
        let scripts: Vec<(&str, Vec<TOp>)> = vec![
            ("R00", vec![CacheRemove(0, 0)]),
            ("R01", vec![CacheRemove(0, 1), Size(0)]),
            ("R10", vec![CacheRemove(1, 0)]),
            ("C0", vec![CacheClear(0)]),
            ("RR0", vec![RegRemove(0)]),
            ("RC", vec![RegClear]),
            ("T0", vec![Take(0)]),
            ("T1", vec![Take(1)]),
            ("S", vec![Size(0), Size(1)]),
        ];
        let n = scripts.len();
        for a in 0..n {
            for b in a..n {
                for c in b..n {
                    // a client is taken once
                    let names = [scripts[a].0, scripts[b].0, scripts[c].0];
                    if names.iter().filter(|x| **x == "T0").count() > 1 || names.iter().filter(|x| **x == "T1").count() > 1 {
                        continue;
                    }
                    add(&format!("gen/{}", names.join("+")), "generated: every assignment of the script alphabet {cache remove (3 keys), cache clear, registry remove, registry clear, take (2 clients), size} to three threads", 2, vec![scripts[a].1.clone(), scripts[b].1.clone(), scripts[c].1.clone()]);
                }
            }
        }
    }
    v
}

pub fn assumptions() -> Vec<String> {
    vec![
        "the scripted backend speaks the subset of the v3 protocol that startup, simple queries, Parse/Describe/Sync and Close need; tokio-postgres 0.7.18 is trusted".into(),
        "a closed connection is 'known closed' after the runtime has settled (12 yields of the current-thread runtime)".into(),
        "client, connection and server tasks run on one current-thread tokio runtime, so each history is deterministic".into(),
        "threads/*: statement-cache and registry calls are interleaved at every operation on the cache's RwLock and size counter and on the registry's mutex (shim types in the verification build); no prepare runs in that phase (a miss needs the server), so inserts meet removes only at task level (PreparePair)".into(),
    ]
}
