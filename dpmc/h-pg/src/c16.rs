use dpmc::report::{Scenario, Tier};
pub fn scenarios(_t: Tier) -> Vec<Scenario> { vec![] }
pub fn assumptions() -> Vec<String> { vec![] }
