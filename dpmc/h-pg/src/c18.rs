//! C18: deadpool_postgres::Config translation — exhaustive products of field
//! settings against a reference translation written from the statement.

use std::hash::{Hash, Hasher};
use std::net::IpAddr;
use std::panic::{catch_unwind, AssertUnwindSafe};
use std::str::FromStr;
use std::time::Duration;

use deadpool::managed::{PoolConfig, QueueMode, Timeouts};
use deadpool::Runtime;
use deadpool_postgres::{ChannelBinding, Config, ConfigError, CreatePoolError, LoadBalanceHosts, ManagerConfig, RecyclingMethod, SslMode, TargetSessionAttrs};
use dpmc::explorer::{self, choose_free, note_state, Outcome, Violation};
use dpmc::trace;
use tokio_postgres::config::Host;

pub const URLS: &[Option<&str>] = &[
    None,
    Some("postgresql://u1:pw1@h1:5433/db1"),
    Some("postgresql://h1/db1"),
    Some("postgresql://u1@h1"),
    Some("postgresql://u1@h1:5433,h2:5434/db1"),
    Some("postgresql:///db1?host=/tmp/sock&port=5555"),
    Some("postgresql://u1@h1/db1?hostaddr=10.0.0.1"),
    Some("postgresql://u1@h1/db1?options=-c%20search_path%3Dx&application_name=app1&connect_timeout=3&keepalives=0&keepalives_idle=7&sslmode=require&target_session_attrs=read-write&channel_binding=require&load_balance_hosts=random"),
    Some("postgresql://u1@h1:notaport/db1"),
    Some("postgresql://üser:pässwort@h1/dbü"),
    Some("host=h1 user=u1 dbname=''"),
    Some("user=u1 dbname=db1"),
    Some("this is not a url"),
    // thorough tier only (see URLS_QUICK)
    Some("postgresql://u1:p%40ss%2Fw@[::1]:5440/db1"),
    Some("postgresql://u1:@h1/db1?sslmode=disable"),
    Some("postgresql://u1@h1,h2,h3/db1?hostaddr=10.0.0.1,10.0.0.2,10.0.0.3&port=1,2,3"),
    Some("postgresql://u1@h1/db1?target_session_attrs=any&channel_binding=disable&load_balance_hosts=disable&keepalives=1"),
    Some("postgres://u1@h1/"),
    Some("postgresql://u1@h1/db1?connect_timeout=notanumber"),
    Some("user='u 1' password='p\\'w' dbname='d b' host=h1 port=5441 application_name='a b'"),
];
pub const URLS_QUICK: usize = 13;

static THOROUGH: std::sync::atomic::AtomicBool = std::sync::atomic::AtomicBool::new(false);
pub fn set_thorough(t: bool) {
    THOROUGH.store(t, std::sync::atomic::Ordering::Relaxed);
}
fn n_urls() -> usize {
    if THOROUGH.load(std::sync::atomic::Ordering::Relaxed) {
        URLS.len()
    } else {
        URLS_QUICK
    }
}

fn bad(v: &mut Vec<Violation>, key: &str, msg: String) {
    if !v.iter().any(|x| x.key == key) {
        v.push(Violation { property: "C18".into(), key: key.into(), msg });
    }
}

fn hosts_of(c: &tokio_postgres::Config) -> Vec<String> {
    c.get_hosts()
        .iter()
        .map(|h| match h {
            Host::Tcp(s) => format!("tcp:{}", s),
            #[cfg(unix)]
            Host::Unix(p) => format!("unix:{}", p.display()),
        })
        .collect()
}

#[derive(Debug, PartialEq)]
struct View {
    user: Option<String>,
    password: Option<Vec<u8>>,
    dbname: Option<String>,
    options: Option<String>,
    application_name: Option<String>,
    ssl_mode: String,
    hosts: Vec<String>,
    hostaddrs: Vec<IpAddr>,
    ports: Vec<u16>,
    connect_timeout: Option<Duration>,
    keepalives: bool,
    keepalives_idle: Duration,
    target_session_attrs: String,
    channel_binding: String,
    load_balance_hosts: String,
}

fn view(c: &tokio_postgres::Config) -> View {
    View {
        user: c.get_user().map(|s| s.to_string()),
        password: c.get_password().map(|s| s.to_vec()),
        dbname: c.get_dbname().map(|s| s.to_string()),
        options: c.get_options().map(|s| s.to_string()),
        application_name: c.get_application_name().map(|s| s.to_string()),
        ssl_mode: format!("{:?}", c.get_ssl_mode()),
        hosts: hosts_of(c),
        hostaddrs: c.get_hostaddrs().to_vec(),
        ports: c.get_ports().to_vec(),
        connect_timeout: c.get_connect_timeout().copied(),
        keepalives: c.get_keepalives(),
        keepalives_idle: c.get_keepalives_idle(),
        target_session_attrs: format!("{:?}", c.get_target_session_attrs()),
        channel_binding: format!("{:?}", c.get_channel_binding()),
        load_balance_hosts: format!("{:?}", c.get_load_balance_hosts()),
    }
}

#[derive(Debug, PartialEq)]
enum Expect {
    InvalidUrl,
    DbnameMissing,
    DbnameEmpty,
    Cfg(View),
}

/// The reference translation, written from the statement of C18.
fn reference(cfg: &Config, env_user: Option<&str>) -> Expect {
    let base = match &cfg.url {
        Some(u) => match tokio_postgres::Config::from_str(u) {
            Ok(c) => c,
            Err(_) => return Expect::InvalidUrl,
        },
        None => tokio_postgres::Config::new(),
    };
    let mut v = view(&base);
    // scalar options override the URL; an empty user / dbname counts as unset
    if let Some(u) = cfg.user.as_ref().filter(|s| !s.is_empty()) {
        v.user = Some(u.clone());
    }
    if v.user.as_deref().map(|u| u.is_empty()).unwrap_or(true) {
        if let Some(u) = env_user {
            v.user = Some(u.to_string());
        }
    }
    if let Some(p) = &cfg.password {
        v.password = Some(p.as_bytes().to_vec());
    }
    if let Some(d) = cfg.dbname.as_ref().filter(|s| !s.is_empty()) {
        v.dbname = Some(d.clone());
    }
    match v.dbname.as_deref() {
        None => return Expect::DbnameMissing,
        Some("") => return Expect::DbnameEmpty,
        _ => {}
    }
    if let Some(o) = &cfg.options {
        v.options = Some(o.clone());
    }
    if let Some(a) = &cfg.application_name {
        v.application_name = Some(a.clone());
    }
    // lists: the URL's, then the singular, then the plural field
    if let Some(h) = &cfg.host {
        v.hosts.push(host_repr(h));
    }
    if let Some(hs) = &cfg.hosts {
        for h in hs {
            v.hosts.push(host_repr(h));
        }
    }
    if v.hosts.is_empty() {
        #[cfg(unix)]
        {
            v.hosts = vec!["unix:/run/postgresql".into(), "unix:/var/run/postgresql".into(), "unix:/tmp".into()];
        }
        #[cfg(not(unix))]
        {
            v.hosts = vec!["tcp:127.0.0.1".into()];
        }
    }
    if let Some(a) = cfg.hostaddr {
        v.hostaddrs.push(a);
    }
    if let Some(aa) = &cfg.hostaddrs {
        v.hostaddrs.extend(aa.iter().copied());
    }
    if let Some(p) = cfg.port {
        v.ports.push(p);
    }
    if let Some(pp) = &cfg.ports {
        v.ports.extend(pp.iter().copied());
    }
    if let Some(t) = cfg.connect_timeout {
        v.connect_timeout = Some(t);
    }
    if let Some(k) = cfg.keepalives {
        v.keepalives = k;
    }
    if let Some(k) = cfg.keepalives_idle {
        v.keepalives_idle = k;
    }
    if let Some(m) = cfg.ssl_mode {
        v.ssl_mode = format!("{:?}", m);
    }
    if let Some(m) = cfg.target_session_attrs {
        v.target_session_attrs = format!("{:?}", m);
    }
    if let Some(m) = cfg.channel_binding {
        v.channel_binding = format!("{:?}", m);
    }
    if let Some(m) = cfg.load_balance_hosts {
        v.load_balance_hosts = format!("{:?}", m);
    }
    Expect::Cfg(v)
}

fn host_repr(h: &str) -> String {
    // tokio_postgres::Config::host treats a leading '/' as a unix socket directory
    #[cfg(unix)]
    if h.starts_with('/') {
        return format!("unix:{}", h);
    }
    format!("tcp:{}", h)
}

fn check(cfg: &Config, env_user: Option<&str>, viol: &mut Vec<Violation>) -> u64 {
    let exp = reference(cfg, env_user);
    let got = catch_unwind(AssertUnwindSafe(|| cfg.get_pg_config()));
    let got = match got {
        Err(p) => {
            bad(viol, "panic", format!("get_pg_config panicked: {} for {:?}", explorer::panic_msg(&p), cfg));
            return 0;
        }
        Ok(g) => g,
    };
    let got = match got {
        Err(ConfigError::InvalidUrl(_)) => Expect::InvalidUrl,
        Err(ConfigError::DbnameMissing) => Expect::DbnameMissing,
        Err(ConfigError::DbnameEmpty) => Expect::DbnameEmpty,
        Ok(c) => Expect::Cfg(view(&c)),
    };
    if got != exp {
        let key = match (&got, &exp) {
            (Expect::Cfg(g), Expect::Cfg(e)) => {
                let mut fields = Vec::new();
                macro_rules! f {
                    ($n:ident) => {
                        if g.$n != e.$n {
                            fields.push(stringify!($n));
                        }
                    };
                }
                f!(user);
                f!(password);
                f!(dbname);
                f!(options);
                f!(application_name);
                f!(ssl_mode);
                f!(hosts);
                f!(hostaddrs);
                f!(ports);
                f!(connect_timeout);
                f!(keepalives);
                f!(keepalives_idle);
                f!(target_session_attrs);
                f!(channel_binding);
                f!(load_balance_hosts);
                format!("field-not-in-effect:{}", fields.join(","))
            }
            _ => "wrong-result-kind".to_string(),
        };
        bad(viol, &key, format!("Config {:?} (USER={:?}) translated to {:?}, the statement requires {:?}", cfg, env_user, got, exp));
    }
    let mut h = std::collections::hash_map::DefaultHasher::new();
    format!("{:?}", got).hash(&mut h);
    h.finish()
}

fn env_user() -> Option<String> {
    std::env::var("USER").ok()
}

/// Sweep A: URL shape x every subset of the scalar fields (each enum variant).
pub fn sweep_scalars() -> Outcome {
    let mut viol = Vec::new();
    let mut cfg = Config::new();
    cfg.url = URLS[choose_free(n_urls())].map(|s| s.to_string());
    let th = THOROUGH.load(std::sync::atomic::Ordering::Relaxed);
    let pick = |vals: &[&str]| -> Option<String> {
        let n = if th { vals.len() + 1 } else { 2 };
        let k = choose_free(n);
        if k == 0 {
            None
        } else {
            Some(vals[k - 1].to_string())
        }
    };
    cfg.user = pick(&["u9", "üser 9"]);
    // the empty password is a value of its own (only user and dbname treat "" as unset)
    cfg.password = [None, Some("pw9".to_string()), Some(String::new())][choose_free(3)].clone();
    cfg.dbname = pick(&["db9", "dätabase"]);
    let long_opts: String = format!("-c search_path={}", "s\u{e9}".repeat(30));
    cfg.options = pick(&["-c x=9", "", long_opts.as_str()]);
    // long values reach tokio_postgres unchanged too (80 bytes of two-byte
    // characters: no byte offset that a careless truncation would pick is a
    // character boundary)
    let long_name: String = "\u{e4}".repeat(40);
    cfg.application_name = pick(&[long_name.as_str(), "app9", ""]);
    cfg.ssl_mode = [None, Some(SslMode::Disable), Some(SslMode::Prefer), Some(SslMode::Require)][choose_free(4)];
    // durations: whole seconds, below one second, seconds plus a fraction
    // (thorough: also zero and a very large value)
    let durs = |whole: u64| -> Vec<Option<Duration>> {
        let mut v = vec![None, Some(Duration::from_secs(whole)), Some(Duration::from_millis(500)), Some(Duration::new(1, 500_000_000))];
        if th {
            v.push(Some(Duration::ZERO));
            v.push(Some(Duration::from_secs(u32::MAX as u64)));
        }
        v
    };
    let ct = durs(9);
    cfg.connect_timeout = ct[choose_free(ct.len())];
    cfg.keepalives = [None, Some(true), Some(false)][choose_free(3)];
    let mut ki = durs(99);
    // the value tokio_postgres itself defaults to (two hours): set explicitly it
    // must still win over what the url says
    ki.push(Some(Duration::from_secs(2 * 60 * 60)));
    cfg.keepalives_idle = ki[choose_free(ki.len())];
    cfg.target_session_attrs = [None, Some(TargetSessionAttrs::Any), Some(TargetSessionAttrs::ReadWrite)][choose_free(3)];
    cfg.channel_binding = [None, Some(ChannelBinding::Disable), Some(ChannelBinding::Prefer), Some(ChannelBinding::Require)][choose_free(4)];
    cfg.load_balance_hosts = [None, Some(LoadBalanceHosts::Disable), Some(LoadBalanceHosts::Random)][choose_free(3)];
    trace!("{:?}", cfg);
    explorer::count_step();
    let obs = check(&cfg, env_user().as_deref(), &mut viol);
    note_state(obs);
    Outcome { obs, violations: viol }
}

/// Sweep B: lists and empty / non-ASCII strings.
pub fn sweep_lists() -> Outcome {
    let mut viol = Vec::new();
    let mut cfg = Config::new();
    cfg.url = URLS[choose_free(n_urls())].map(|s| s.to_string());
    let strs = [None, Some(""), Some("v9"), Some("ü9")];
    cfg.user = strs[choose_free(4)].map(|s| s.to_string());
    cfg.dbname = strs[choose_free(4)].map(|s| s.to_string());
    cfg.host = [None, Some("h9"), Some("/var/sock9")][choose_free(3)].map(|s| s.to_string());
    cfg.hosts = [None, Some(vec![]), Some(vec!["h7".to_string(), "h8".to_string()])][choose_free(3)].clone();
    let a = |s: &str| IpAddr::from_str(s).unwrap();
    cfg.hostaddr = [None, Some(a("10.9.9.9"))][choose_free(2)];
    cfg.hostaddrs = [None, Some(vec![]), Some(vec![a("10.7.7.7"), a("::1")])][choose_free(3)].clone();
    // an explicit port is an explicit port, also when it is the default one
    // (thorough: or zero)
    let th = THOROUGH.load(std::sync::atomic::Ordering::Relaxed);
    cfg.port = [None, Some(5999u16), Some(5432), Some(0)][choose_free(if th { 4 } else { 3 })];
    cfg.ports = [None, Some(vec![]), Some(vec![5997u16, 5998])][choose_free(3)].clone();
    trace!("{:?}", cfg);
    explorer::count_step();
    let obs = check(&cfg, env_user().as_deref(), &mut viol);
    note_state(obs);
    Outcome { obs, violations: viol }
}

/// Sweep C: pool and manager sections reach the built pool; timeouts without a
/// runtime are a build error.
pub fn sweep_sections() -> Outcome {
    let mut viol = Vec::new();
    let mut cfg = Config::new();
    cfg.dbname = Some("db".into());
    let tmo = |i: usize| [None, Some(Duration::ZERO), Some(Duration::from_millis(250))][i];
    let pool_choice = choose_free(3);
    cfg.pool = match pool_choice {
        0 => None,
        1 => Some(PoolConfig::new(3)),
        _ => Some(PoolConfig {
            max_size: [0usize, 1, 7][choose_free(3)],
            timeouts: Timeouts { wait: tmo(choose_free(3)), create: tmo(choose_free(3)), recycle: tmo(choose_free(3)) },
            queue_mode: [QueueMode::Fifo, QueueMode::Lifo][choose_free(2)],
        }),
    };
    let methods = [None, Some(RecyclingMethod::Fast), Some(RecyclingMethod::Verified), Some(RecyclingMethod::Clean), Some(RecyclingMethod::Custom("SELECT 9".into()))];
    cfg.manager = methods[choose_free(5)].clone().map(|m| ManagerConfig { recycling_method: m });
    let runtime = [None, Some(Runtime::Tokio1)][choose_free(2)];
    explorer::count_step();
    trace!("{:?} runtime {:?}", cfg, runtime);
    let r = catch_unwind(AssertUnwindSafe(|| cfg.create_pool(runtime, tokio_postgres::NoTls)));
    let exp_pool = cfg.pool.unwrap_or_default();
    let t = exp_pool.timeouts;
    let has_timeouts = t.wait.is_some() || t.create.is_some() || t.recycle.is_some();
    let nonzero = [t.wait, t.create, t.recycle].iter().any(|d| d.map(|d| !d.is_zero()).unwrap_or(false));
    let mut obs = 0u64;
    match r {
        Err(p) => bad(&mut viol, "create-pool-panic", format!("create_pool panicked: {}", explorer::panic_msg(&p))),
        Ok(Err(CreatePoolError::Build(_))) => {
            obs = 1;
            if runtime.is_some() || !has_timeouts {
                bad(&mut viol, "build-error-without-cause", format!("create_pool failed with a build error for pool {:?} runtime {:?}", cfg.pool, runtime));
            }
        }
        Ok(Err(CreatePoolError::Config(e))) => bad(&mut viol, "config-error", format!("unexpected config error {:?}", e)),
        Ok(Ok(pool)) => {
            obs = 2;
            if runtime.is_none() && nonzero {
                bad(&mut viol, "timeouts-without-runtime-accepted", format!("create_pool accepted timeouts {:?} without a runtime", t));
            }
            let st = pool.status();
            if st.max_size != exp_pool.max_size {
                bad(&mut viol, "max-size-not-applied", format!("built pool max_size {} configured {}", st.max_size, exp_pool.max_size));
            }
            let pt = pool.timeouts();
            if (pt.wait, pt.create, pt.recycle) != (t.wait, t.create, t.recycle) {
                bad(&mut viol, "timeouts-not-applied", format!("built pool timeouts {:?} configured {:?}", pt, t));
            }
            let dbg = format!("{:?}", pool.manager());
            let exp_method = format!("recycling_method: {:?}", cfg.manager.clone().unwrap_or_default().recycling_method);
            if !dbg.contains(&exp_method) {
                bad(&mut viol, "manager-config-not-applied", format!("manager {:?} does not show {}", dbg, exp_method));
            }
            if st.size != 0 {
                bad(&mut viol, "pool-not-empty-after-build", "a freshly built pool reports objects".into());
            }
        }
    }
    let mut h = std::collections::hash_map::DefaultHasher::new();
    (obs, pool_choice, format!("{:?}", cfg.pool), format!("{:?}", cfg.manager), runtime.is_some()).hash(&mut h);
    note_state(h.finish());
    Outcome { obs: h.finish(), violations: viol }
}
