//! dpmc-pg: checks C18 (Config translation) and C16 (wire-level pool behaviour).
mod c16;
mod c18;

use dpmc::report::{parse_args, run_check, CheckSpec, Scenario, Tier};
use serde_json::json;

fn with_user_env(mut sc: Scenario, set: bool) -> Scenario {
    sc.setup = Some(Box::new(move || {
        // runs single-threaded before the scenario's worker threads start
        if set {
            std::env::set_var("USER", "envuser");
        } else {
            std::env::remove_var("USER");
        }
    }));
    sc
}

fn spec_for(prop: &str, tier: Tier) -> Option<CheckSpec> {
    let mut scenarios = Vec::new();
    let (rule, assumptions, level): (String, Vec<String>, &'static str);
    match prop {
        "C18" => {
            c18::set_thorough(tier == Tier::Thorough);
            for set in [true, false] {
                let tag = if set { "USER-set" } else { "USER-unset" };
                scenarios.push(with_user_env(Scenario::new(&format!("scalars/{}", tag), "13 (quick) / 20 (thorough) URL shapes x every subset of the 12 scalar fields (every enum variant; thorough: two values per textual field incl. empty and non-ASCII), each value distinct from the URL's", 0, 0, c18::sweep_scalars), set));
                scenarios.push(with_user_env(Scenario::new(&format!("lists/{}", tag), "13 URL shapes x user/dbname in {unset, empty, ascii, non-ascii} x host/hosts/hostaddr/hostaddrs/port/ports each unset / empty / set", 0, 0, c18::sweep_lists), set));
            }
            scenarios.push(Scenario::new("sections", "pool section (absent / default / every max_size x timeouts x queue mode) x manager section (absent / each recycling method) x runtime present or absent through create_pool()", 0, 0, c18::sweep_sections));
            rule = "exhaustive product of the listed value grids; each input is translated by get_pg_config()/create_pool() and compared field by field (through tokio_postgres::Config getters) with a reference translation written from the statement; distinct = distinct resulting configuration or error".into();
            assumptions = vec![
                "tokio_postgres::Config::from_str is the trusted URL parser (the reference starts from its result)".into(),
                "values are drawn from the stated grids; arbitrary other strings are not enumerated".into(),
            ];
            level = "model_checking";
        }
        "C16" => {
            scenarios = c16::scenarios(tier);
            scenarios.extend(c16::thread_scenarios(tier));
            rule = "every history (depth bound) of pool and statement-cache operations against a scripted PostgreSQL backend speaking the wire protocol over an in-memory duplex stream; distinct = distinct operation/result log".into();
            assumptions = c16::assumptions();
            level = "model_checking";
        }
        _ => return None,
    }
    Some(CheckSpec { property: prop.to_string(), level, rule, assumptions, bounds: json!({"tier": tier.name()}), scenarios })
}

fn main() {
    let args = parse_args();
    match spec_for(args.spec.as_deref().unwrap_or(&args.property), args.tier) {
        Some(mut s) => {
            s.property = args.property.clone();
            run_check(&args, s)
        }
        None => {
            eprintln!("unknown property {}", args.property);
            std::process::exit(2);
        }
    }
}
