//! Ground truth, scripted manager/hooks and property oracles for the managed
//! pool. One `World` per execution, thread-local (all actors of an execution
//! share the worker's OS thread).

use std::cell::RefCell;
use std::collections::{BTreeMap, VecDeque};
use std::time::Instant;

use deadpool::managed::{
    Hook, HookError, Manager, Metrics, Object, Pool, PoolError, QueueMode, RecycleError,
    RecycleResult, TimeoutType,
};
use dpmc::explorer::{choose, choose_free, Cost, Violation};
use dpmc::{sched, trace};

pub const PROBE: usize = 1000;
pub const INJECTED: &str = "INJECTED-PANIC";

#[derive(Clone, Copy, PartialEq, Eq, Debug, Hash)]
pub enum Out {
    Ok,
    Err,
    PendOk,
    PendErr,
    Never,
    Panic,
}

#[derive(Clone, Debug)]
pub struct HookCfg {
    pub asynchronous: bool,
    pub menu: Vec<Out>,
}

#[derive(Clone, Debug)]
pub struct PoolCfg {
    pub max_size: usize,
    pub lifo: bool,
    pub create_menu: Vec<Out>,
    pub recycle_menu: Vec<Out>,
    pub pre_recycle: Vec<HookCfg>,
    pub post_recycle: Vec<HookCfg>,
    pub post_create: Vec<HookCfg>,
    /// Gates are completed by the scheduler (conc) rather than the controller (seq).
    pub auto_gates: bool,
    /// The reference idle queue is exact (sequential histories only).
    pub exact_order: bool,
    /// Environment answers are free choices (reachability mode).
    pub free_faults: bool,
    /// The order and flavour of the builder calls that configure the pool is
    /// a free choice (see `build_pool_with`).
    pub builder_sweep: bool,
}

impl PoolCfg {
    pub fn simple(max_size: usize) -> Self {
        PoolCfg {
            max_size,
            lifo: false,
            create_menu: vec![Out::Ok],
            recycle_menu: vec![Out::Ok],
            pre_recycle: vec![],
            post_recycle: vec![],
            post_create: vec![],
            auto_gates: true,
            exact_order: false,
            free_faults: false,
            builder_sweep: false,
        }
    }
}

#[derive(Clone, Copy, PartialEq, Eq, Debug, Hash, PartialOrd, Ord)]
pub enum Site {
    Create,
    Recycle,
    PreRecycle(u8),
    PostRecycle(u8),
    PostCreate(u8),
}

#[derive(Clone, Copy, PartialEq, Eq, Debug, Hash)]
pub enum Loc {
    /// Owned by the pool (idle, in transit, or being recycled/created by a get).
    Pool,
    Held(usize),
    Taken,
    RetainedOut,
}

#[derive(Clone, Copy, PartialEq, Eq, Debug, Hash)]
pub enum OpKind {
    Get,
    Release,
    Take,
    Retain,
    Resize,
    Close,
    Status,
    Build,
    DropPool,
}

#[derive(Debug)]
pub struct ObjRec {
    pub alive: bool,
    pub loc: Loc,
    pub detach: u32,
    pub handouts: u32,
    pub rejected: bool,
    pub steps: Vec<(Site, Option<bool>)>,
    pub created: Option<Instant>,
    pub shown: Option<(Option<Instant>, usize)>,
    pub destroyed_in: Option<OpKind>,
    pub in_flight: bool,
    /// Object::drop for it is in progress (it may or may not be in the queue yet).
    /// number of `op_release` calls for this object whose drop has not finished
    /// (two can overlap: the tail of one return, after the push, and the next
    /// holder's return)
    pub returning: u32,
}

#[derive(Clone, Debug, PartialEq, Eq, Hash)]
pub enum GetOut {
    Obj(usize),
    Err(String),
    Cancelled,
    Panicked(String),
}

#[derive(Debug)]
pub struct GetRec {
    pub who: usize,
    pub nonblocking: bool,
    pub epoch_at_start: u32,
    pub resize_in_progress_at_start: bool,
    pub started_after_close: bool,
    pub in_env: Option<Site>,
    pub tried: Vec<usize>,
    pub env_errs: Vec<(Site, u32)>,
    pub injected_panic: bool,
    pub outcome: Option<GetOut>,
}

pub struct World {
    pub cfg: PoolCfg,
    pub objs: Vec<ObjRec>,
    pub creating: u32,
    pub viol: Vec<Violation>,
    pub seq_actor: Option<usize>,
    pub forced_ok: bool,
    pub limit: usize,
    pub limit_alt: Option<usize>,
    pub resizes_begun: u32,
    pub resize_epoch: u32,
    pub close_begun: bool,
    pub close_returned: bool,
    pub abandoned: u32,
    /// `Object::take` / `retain` calls begun so far (C09 answers for capacity
    /// lost in a history that contains one)
    pub takes_retains: u32,
    pub ops: BTreeMap<usize, (OpKind, Option<usize>)>,
    pub gets: Vec<GetRec>,
    pub hands: BTreeMap<usize, Vec<Object<Mgr>>>,
    pub keep: Vec<Obj>,
    pub ref_idle: VecDeque<usize>,
    pub errno: u32,
    pub base: Vec<&'static str>,
    pub events: u32,
    pub in_retain: bool,
    pub overlap: bool,
    pub handles: i32,
    /// An abandonment happened since the last exact at-rest check.
    pub abandon_mark: bool,
    /// Sequential (task-level) driver: nothing else runs while an operation
    /// that has no await executes.
    pub task_level: bool,
    /// Counts begin_op / end_op calls (to see whether anything else started
    /// or finished during an operation).
    pub op_ticks: u64,
    /// Timeouts / missing runtimes are part of the scenario (C10).
    pub allow_timeouts: bool,
    /// Virtual time (maintained by the H-time driver) and a log of env calls.
    pub now: u64,
    pub env_log: Vec<EnvLog>,
}

#[derive(Clone, Debug)]
pub struct EnvLog {
    pub get: Option<usize>,
    pub site: Site,
    pub start: u64,
    pub end: Option<u64>,
    pub completed: bool,
    pub gate: Option<usize>,
    pub fired_at: Option<u64>,
}

thread_local! {
    static W: RefCell<Option<World>> = const { RefCell::new(None) };
}

pub fn w<R>(f: impl FnOnce(&mut World) -> R) -> R {
    W.with(|c| f(c.borrow_mut().as_mut().expect("world not initialised")))
}

fn try_w<R>(f: impl FnOnce(&mut World) -> R) -> Option<R> {
    W.try_with(|c| c.try_borrow_mut().ok().and_then(|mut b| b.as_mut().map(f)))
        .ok()
        .flatten()
}

pub fn init_world(cfg: PoolCfg, base: &[&'static str]) {
    let limit = cfg.max_size;
    W.with(|c| {
        *c.borrow_mut() = Some(World {
            cfg,
            objs: Vec::new(),
            creating: 0,
            viol: Vec::new(),
            seq_actor: None,
            forced_ok: false,
            limit,
            limit_alt: None,
            resizes_begun: 0,
            resize_epoch: 0,
            close_begun: false,
            close_returned: false,
            abandoned: 0,
            takes_retains: 0,
            ops: BTreeMap::new(),
            gets: Vec::new(),
            hands: BTreeMap::new(),
            keep: Vec::new(),
            ref_idle: VecDeque::new(),
            errno: 0,
            base: base.to_vec(),
            events: 0,
            in_retain: false,
            overlap: false,
            handles: 0,
            abandon_mark: false,
            task_level: false,
            op_ticks: 0,
            allow_timeouts: false,
            now: 0,
            env_log: Vec::new(),
        })
    });
}

pub fn drop_world() -> Option<World> {
    W.with(|c| c.borrow_mut().take())
}

/// Identity of the caller: the sequential driver's virtual task, the running
/// actor (index + 1), or 0 for the controller.
pub fn who() -> usize {
    if let Some(Some(s)) = try_w(|w| w.seq_actor) {
        return s;
    }
    sched::current().map(|c| c + 1).unwrap_or(0)
}

impl World {
    pub fn violate(&mut self, props: &[&str], key: &str, msg: String) {
        for p in props {
            if !self.viol.iter().any(|v| v.property == *p && v.key == key) {
                self.viol.push(Violation {
                    property: p.to_string(),
                    key: key.to_string(),
                    msg: msg.clone(),
                });
            }
        }
    }

    /// Properties to blame for a capacity / accounting failure: the most
    /// specific statement that covers the operations this history contains.
    /// No violation of a property this scenario was built for (`base`).  A
    /// violation of some *other* property does not end a history: the check
    /// that runs this scenario reports only its own property, and its oracle
    /// must still get to see how the history goes on.
    pub fn own_clean(&self) -> bool {
        !self.viol.iter().any(|v| self.base.iter().any(|b| *b == v.property))
    }

    pub fn blame(&self) -> Vec<&'static str> {
        if self.resizes_begun > 0 && !self.close_begun {
            // C09: take() "frees the slot", retain() "does not reduce the
            // pool's capacity" - also in histories with a resize
            let mut v = vec!["C07"];
            // C02 is quantified over "all finite histories of pool operations"
            if self.base.contains(&"C02") {
                v.push("C02");
            }
            if self.takes_retains > 0 && self.base.contains(&"C09") {
                v.push("C09");
            }
            // C03 is quantified over "every pool state reachable by a
            // preceding history", resized pools included
            if self.abandoned > 0 && self.base.contains(&"C03") {
                v.push("C03");
            }
            v
        } else if self.close_begun {
            vec!["C06"]
        } else {
            let mut v = self.base.clone();
            if self.abandoned > 0 && !v.contains(&"C03") {
                v.push("C03");
            }
            v
        }
    }

    pub fn live(&self) -> usize {
        self.objs
            .iter()
            .filter(|o| o.alive && matches!(o.loc, Loc::Pool | Loc::Held(_)))
            .count()
    }

    pub fn held(&self) -> usize {
        self.objs
            .iter()
            .filter(|o| o.alive && matches!(o.loc, Loc::Held(_)))
            .count()
    }

    /// Pool-owned objects nobody is holding or trying.
    pub fn idle(&self) -> usize {
        self.objs
            .iter()
            .filter(|o| o.alive && o.loc == Loc::Pool && !o.in_flight)
            .count()
    }

    pub fn stable_limit(&self) -> bool {
        self.resizes_begun == 0 && !self.close_begun
    }

    fn check_c01(&mut self, at: &str) {
        if !self.stable_limit() {
            return;
        }
        let ms = self.cfg.max_size;
        let n = self.live() + self.creating as usize;
        if n > ms {
            self.violate(
                &["C01"],
                "live-over-max",
                format!("{}: {} live objects + {} being created > max_size {}", at, self.live(), self.creating, ms),
            );
        }
    }

    pub fn begin_op(&mut self, who: usize, kind: OpKind) {
        self.op_ticks += 1;
        self.ops.insert(who, (kind, None));
    }

    pub fn end_op(&mut self, who: usize) {
        self.op_ticks += 1;
        self.ops.remove(&who);
    }

    pub fn begin_get(&mut self, who: usize, nonblocking: bool) -> usize {
        let gi = self.gets.len();
        self.gets.push(GetRec {
            who,
            nonblocking,
            epoch_at_start: self.resize_epoch,
            resize_in_progress_at_start: self.resizes_begun != self.resize_epoch,
            started_after_close: self.close_returned,
            in_env: None,
            tried: Vec::new(),
            env_errs: Vec::new(),
            injected_panic: false,
            outcome: None,
        });
        self.ops.insert(who, (OpKind::Get, Some(gi)));
        gi
    }

    fn cur_get(&self, who: usize) -> Option<usize> {
        match self.ops.get(&who) {
            Some((OpKind::Get, Some(gi))) => Some(*gi),
            _ => None,
        }
    }

    fn hooks_of(&self, site: Site) -> usize {
        match site {
            Site::PreRecycle(_) => self.cfg.pre_recycle.len(),
            Site::PostRecycle(_) => self.cfg.post_recycle.len(),
            Site::PostCreate(_) => self.cfg.post_create.len(),
            _ => 0,
        }
    }

    fn expected_steps(&self, fresh: bool) -> Vec<Site> {
        let mut v = Vec::new();
        if fresh {
            v.push(Site::Create);
            for i in 0..self.cfg.post_create.len() {
                v.push(Site::PostCreate(i as u8));
            }
        } else {
            for i in 0..self.cfg.pre_recycle.len() {
                v.push(Site::PreRecycle(i as u8));
            }
            v.push(Site::Recycle);
            for i in 0..self.cfg.post_recycle.len() {
                v.push(Site::PostRecycle(i as u8));
            }
        }
        v
    }

    /// Entry of a manager / hook call.
    fn env_enter(&mut self, who: usize, site: Site, obj: Option<usize>, m: Option<Metrics>) {
        self.events += 1;
        let gi = self.cur_get(who);
        if gi.is_none() {
            let label = self.ops.get(&who).map(|o| format!("{:?}", o.0)).unwrap_or_else(|| "no pool operation".into());
            self.violate(
                &["C08"],
                "call-outside-get",
                format!("{:?} invoked by caller {} during {}", site, who, label),
            );
        }
        match site {
            Site::Create => {
                if self.stable_limit() {
                    let n = self.live() + self.creating as usize;
                    if n >= self.cfg.max_size {
                        self.violate(
                            &["C01"],
                            "create-over-max",
                            format!("Manager::create entered with {} live + {} being created, max_size {}", self.live(), self.creating, self.cfg.max_size),
                        );
                    }
                } else if !self.close_begun {
                    if let Some(gi) = gi {
                        let g = &self.gets[gi];
                        if g.epoch_at_start == self.resize_epoch && !g.resize_in_progress_at_start && self.resizes_begun == self.resize_epoch {
                            let n = self.live() + self.creating as usize;
                            if n >= self.limit.max(self.limit_alt.unwrap_or(0)) {
                                self.violate(
                                    &["C07"],
                                    "create-over-limit-after-resize",
                                    format!("get started after resize({}) returned entered Manager::create with {} live + {} being created", self.limit, self.live(), self.creating),
                                );
                            }
                        }
                    }
                }
                if self.cfg.exact_order && !self.ref_idle.is_empty() && who != PROBE {
                    self.violate(
                        &["C08"],
                        "create-with-idle",
                        format!("Manager::create called while idle objects {:?} were not tried", self.ref_idle),
                    );
                }
                self.creating += 1;
            }
            _ => {
                let id = obj.expect("site needs an object");
                let first = gi.map(|g| !self.gets[g].tried.contains(&id)).unwrap_or(true);
                let is_create_side = matches!(site, Site::PostCreate(_));
                if first && !is_create_side {
                    if let Some(g) = gi {
                        self.gets[g].tried.push(id);
                    }
                    self.objs[id].in_flight = true;
                    if self.cfg.exact_order {
                        let exp = if self.cfg.lifo { self.ref_idle.pop_back() } else { self.ref_idle.pop_front() };
                        if exp != Some(id) {
                            self.violate(
                                &["C08"],
                                "reuse-order",
                                format!("{} mode offered object {} but the {} idle object is {:?}", if self.cfg.lifo { "Lifo" } else { "Fifo" }, id, if self.cfg.lifo { "most recently returned" } else { "longest idle" }, exp),
                            );
                            self.ref_idle.retain(|x| *x != id);
                        }
                    }
                }
                // metrics as seen by hooks / recycle (C13)
                if let Some(m) = m {
                    let o = &self.objs[id];
                    let (exp_count, exp_rec_none) = if is_create_side {
                        (0usize, true)
                    } else {
                        (o.handouts.saturating_sub(1) as usize, o.handouts <= 1)
                    };
                    let shown = o.shown;
                    if m.recycle_count != exp_count || m.recycled.is_none() != exp_rec_none {
                        self.violate(
                            &["C13"],
                            "metrics-seen-by-step",
                            format!("{:?} on object {} saw recycle_count {} recycled {:?}; the value before this hand-out is count {} (recycled {})", site, id, m.recycle_count, m.recycled.is_some(), exp_count, if exp_rec_none { "None" } else { "Some" }),
                        );
                    } else if !is_create_side {
                        if let Some((rec, cnt)) = shown {
                            if rec != m.recycled || cnt != m.recycle_count {
                                self.violate(&["C13"], "metrics-changed-while-idle", format!("{:?} on object {} saw metrics different from Object::metrics() at the last hand-out", site, id));
                            }
                        }
                    }
                    if let Some(c) = self.objs[id].created {
                        if c != m.created {
                            self.violate(&["C13"], "created-changed", format!("creation instant of object {} changed", id));
                        }
                    } else {
                        self.objs[id].created = Some(m.created);
                    }
                }
                self.objs[id].steps.push((site, None));
            }
        }
        if let Some(g) = gi {
            self.gets[g].in_env = Some(site);
        }
        let now = self.now;
        self.env_log.push(EnvLog { get: gi, site, start: now, end: None, completed: false, gate: None, fired_at: None });
        let _ = self.hooks_of(site);
    }

    /// Exit of a manager / hook call: `Some(ok)` when it returned, `None` when
    /// it was abandoned (cancelled or unwound).
    fn env_exit(&mut self, who: usize, site: Site, obj: Option<usize>, result: Option<Result<(), u32>>) {
        let gi = self.cur_get(who);
        let now = self.now;
        if let Some(l) = self.env_log.iter_mut().rev().find(|l| l.get == gi && l.site == site && l.end.is_none()) {
            l.end = Some(now);
            l.completed = result.is_some();
        }
        if let Some(g) = gi {
            self.gets[g].in_env = None;
            if let Some(Err(n)) = result {
                self.gets[g].env_errs.push((site, n));
            }
        }
        match site {
            Site::Create => {
                self.creating -= 1;
            }
            _ => {
                let id = obj.unwrap();
                let ok = matches!(result, Some(Ok(())));
                if let Some(last) = self.objs[id].steps.last_mut() {
                    last.1 = Some(ok);
                }
                if !ok {
                    self.objs[id].rejected = true;
                }
            }
        }
    }

    pub fn new_obj(&mut self) -> usize {
        let id = self.objs.len();
        self.objs.push(ObjRec {
            alive: true,
            loc: Loc::Pool,
            detach: 0,
            handouts: 0,
            rejected: false,
            steps: vec![(Site::Create, Some(true))],
            created: None,
            shown: None,
            destroyed_in: None,
            in_flight: true,
            returning: 0,
        });
        self.check_c01("object constructed");
        id
    }

    /// get() returned an object to `who`.
    pub fn handout(&mut self, who: usize, gi: usize, id: usize, m: Metrics) {
        self.events += 1;
        let fresh = self.objs[id].handouts == 0;
        let exp = self.expected_steps(fresh);
        let o = &self.objs[id];
        let got: Vec<Site> = o.steps.iter().map(|s| s.0).collect();
        let all_ok = o.steps.iter().all(|s| s.1 == Some(true));
        let mut problems: Vec<(Vec<&'static str>, &'static str, String)> = Vec::new();
        if !o.alive {
            problems.push((vec!["C04"], "handout-destroyed", format!("get() returned object {} whose destructor already ran", id)));
        }
        if o.loc != Loc::Pool {
            problems.push((vec!["C04"], "handout-not-pooled", format!("get() returned object {} which is {:?}", id, o.loc)));
        }
        if o.rejected {
            problems.push((vec!["C04"], "handout-rejected", format!("get() returned object {} although a recycling step failed or was abandoned: {:?}", id, o.steps)));
        } else if got != exp || !all_ok {
            problems.push((vec!["C04"], "handout-unverified", format!("object {} handed out after steps {:?}, expected {:?} all succeeding", id, o.steps, exp)));
        }
        // "errors surface exactly": a creation step that failed in this call
        // ends the call with that error - the call does not go on to hand out
        // something else
        if let Some((site, n)) = self.gets[gi].env_errs.iter().find(|(s, _)| matches!(s, Site::Create | Site::PostCreate(_))) {
            problems.push((vec!["C04"], "creation-error-swallowed", format!("get() returned object {} although {:?} failed with error {} in this very call", id, site, n)));
        }
        // metrics at hand-out (C13)
        let exp_count = o.handouts as usize;
        if m.recycle_count != exp_count {
            problems.push((vec!["C13"], "recycle-count", format!("object {} handed out for the {}. time reports recycle_count {}", id, o.handouts + 1, m.recycle_count)));
        }
        if m.recycled.is_some() != (o.handouts > 0) {
            problems.push((vec!["C13"], "recycled-presence", format!("object {} hand-out #{} reports recycled {:?}", id, o.handouts + 1, m.recycled.is_some())));
        }
        if let Some((Some(prev), _)) = o.shown {
            if let Some(now) = m.recycled {
                if now < prev {
                    problems.push((vec!["C13"], "recycled-backwards", format!("recycled instant of object {} moved backwards", id)));
                }
            }
        }
        if let Some(c) = o.created {
            if c != m.created {
                problems.push((vec!["C13"], "created-changed", format!("creation instant of object {} changed", id)));
            }
        }
        if let Some(r) = m.recycled {
            if r < m.created {
                problems.push((vec!["C13"], "recycled-before-created", format!("object {} reports a last-recycled instant before its creation instant", id)));
            }
        }
        let g = &self.gets[gi];
        if g.started_after_close {
            problems.push((vec!["C06"], "object-after-close", format!("get() started after close() returned yielded object {}", id)));
        }
        if !self.close_begun && self.resizes_begun > 0 && g.epoch_at_start == self.resize_epoch && !g.resize_in_progress_at_start && self.resizes_begun == self.resize_epoch && who != PROBE {
            let held = self.held();
            let lim = self.limit_alt.map(|a| a.max(self.limit)).unwrap_or(self.limit);
            if held >= lim {
                problems.push((vec!["C07"], "handout-over-limit-after-resize", format!("get started after resize({}) returned obtained object {} while {} objects were already out", self.limit, id, held)));
            }
        }
        for (p, k, m) in problems {
            self.violate(&p, k, m);
        }
        let o = &mut self.objs[id];
        o.created = Some(m.created);
        o.shown = Some((m.recycled, m.recycle_count));
        o.loc = Loc::Held(who);
        o.handouts += 1;
        o.steps.clear();
        o.in_flight = false;
        self.gets[gi].outcome = Some(GetOut::Obj(id));
        if self.stable_limit() && self.held() > self.cfg.max_size {
            self.violate(&["C01"], "holders-over-max", format!("{} callers hold objects, max_size {}", self.held(), self.cfg.max_size));
        }
        self.check_c01("hand-out");
    }

    pub fn get_error(&mut self, gi: usize, e: &PoolError<MErr>) {
        self.events += 1;
        let desc;
        let g = &self.gets[gi];
        let mut bad: Option<(&'static str, String)> = None;
        match e {
            PoolError::Backend(MErr(n)) => {
                desc = format!("Backend({})", n);
                if !g.env_errs.iter().any(|(s, k)| *s == Site::Create && k == n) {
                    bad = Some(("backend-error-not-from-create", format!("get() returned Backend({}) but Manager::create did not fail with it in this call (errors seen: {:?})", n, g.env_errs)));
                } else if let Some((_, first)) = g.env_errs.iter().find(|(s, _)| matches!(s, Site::Create | Site::PostCreate(_))) {
                    if first != n {
                        bad = Some(("creation-error-replaced", format!("get() returned Backend({}) but the first creation step that failed in this call failed with {} (errors seen: {:?})", n, first, g.env_errs)));
                    }
                }
            }
            PoolError::PostCreateHook(he) => {
                let n = match he {
                    HookError::Backend(MErr(n)) => *n,
                    HookError::Message(_) => u32::MAX,
                };
                desc = format!("PostCreateHook({})", n);
                if !g.env_errs.iter().any(|(s, k)| matches!(s, Site::PostCreate(_)) && *k == n) {
                    bad = Some(("post-create-error-not-from-hook", format!("get() returned PostCreateHook({}) but no post_create hook failed with it (errors seen: {:?})", n, g.env_errs)));
                }
            }
            PoolError::Timeout(TimeoutType::Wait) => {
                desc = "Timeout(Wait)".to_string();
                if !g.nonblocking {
                    bad = Some(("unexpected-wait-timeout", "get() without a wait timeout returned Timeout(Wait)".to_string()));
                }
            }
            PoolError::Timeout(t) => {
                desc = format!("Timeout({:?})", t);
                bad = Some(("unexpected-timeout", format!("get() returned {} although no such timeout is configured", desc)));
            }
            PoolError::Closed => {
                desc = "Closed".to_string();
                if !self.close_begun {
                    bad = Some(("closed-without-close", "get() returned Closed on a pool that was never closed".to_string()));
                }
            }
            PoolError::NoRuntimeSpecified => {
                desc = "NoRuntimeSpecified".to_string();
                bad = Some(("unexpected-no-runtime", "get() returned NoRuntimeSpecified although no timeout is in use".to_string()));
            }
        }
        if let Some((k, m)) = bad {
            let timeout_related = k.starts_with("unexpected-");
            if !(self.allow_timeouts && timeout_related) {
                if k == "unexpected-wait-timeout" && self.close_begun {
                    // "every get() still waiting for a slot ... fails with Closed"
                    self.violate(&["C04", "C06"], "waiter-timeout-instead-of-closed", format!("{} (the pool was being closed: the waiter must see Closed)", m));
                } else {
                    self.violate(&["C04"], k, m);
                }
            }
        }
        self.gets[gi].outcome = Some(GetOut::Err(desc));
    }

    pub fn get_cancelled(&mut self, gi: usize) {
        self.events += 1;
        self.abandoned += 1;
        self.abandon_mark = true;
        self.gets[gi].outcome = Some(GetOut::Cancelled);
    }

    pub fn get_panicked(&mut self, gi: usize, msg: &str) {
        self.events += 1;
        self.abandoned += 1;
        self.abandon_mark = true;
        let injected = self.gets[gi].injected_panic && msg == INJECTED;
        if !injected {
            let b = self.blame();
            let mut props = vec!["C02"];
            if b != vec!["C02"] && !b.contains(&"C02") {
                props = b;
            }
            self.violate(&props, "panic-in-get", format!("get() panicked: {}", msg));
        }
        self.gets[gi].outcome = Some(GetOut::Panicked(msg.to_string()));
    }

    /// End-of-history ledger: destruction and detach bookkeeping per object.
    /// Call after every pool handle has been dropped.
    pub fn final_ledger(&mut self, pool_dropped: bool) {
        let n = self.objs.len();
        for id in 0..n {
            let (alive, loc, detach, rejected, destroyed_in) = {
                let o = &self.objs[id];
                (o.alive, o.loc, o.detach, o.rejected, o.destroyed_in)
            };
            match loc {
                Loc::Taken | Loc::RetainedOut => {
                    if !alive {
                        self.violate(&["C09"], "handed-over-object-destroyed", format!("object {} was handed to the caller ({:?}) but its destructor ran", id, loc));
                    }
                    if detach != 1 {
                        let how = if loc == Loc::Taken { "take" } else { "retain" };
                        self.violate(&["C09"], &format!("detach-count:{}:{}", how, detach.min(2)), format!("object {} left the pool through {} with {} detach calls (expected exactly 1)", id, how, detach));
                    }
                }
                Loc::Held(_) => {}
                Loc::Pool => {
                    if alive && pool_dropped {
                        self.violate(&["C09"], "object-leaked", format!("object {} was never destroyed although every pool handle and object is gone", id));
                    }
                    if !alive {
                        // the pool let go of it while it was alive
                        let by_pool_drop = destroyed_in == Some(OpKind::DropPool);
                        if by_pool_drop {
                            if detach != 0 {
                                self.violate(&["C09"], "detach-on-kept-object", format!("object {} stayed in the pool but detach was called {} times", id, detach));
                            }
                        } else if detach != 1 {
                            let via = match destroyed_in {
                                Some(OpKind::Resize) => "resize",
                                Some(OpKind::Close) => "close",
                                Some(OpKind::Release) => "return",
                                Some(OpKind::Get) => {
                                    if rejected {
                                        "rejected"
                                    } else {
                                        "get"
                                    }
                                }
                                Some(OpKind::Retain) => "retain",
                                Some(OpKind::Take) => "take",
                                _ => "other",
                            };
                            let mut props = vec!["C09"];
                            if via == "rejected" || via == "get" {
                                props.push("C04");
                                if self.abandoned > 0 {
                                    props.push("C03");
                                }
                            }
                            self.violate(&props, &format!("detach-count:{}:{}", via, detach.min(2)), format!("object {} was released by the pool during {} with {} detach calls (expected exactly 1)", id, via, detach));
                        }
                    } else if detach != 0 {
                        self.violate(&["C09"], "detach-on-kept-object", format!("object {} stayed in the pool but detach was called {} times", id, detach));
                    }
                    if rejected && alive {
                        self.violate(&["C04"], "rejected-object-kept", format!("object {} failed a recycling step but was not discarded", id));
                    }
                }
            }
        }
    }
}

// ---------------------------------------------------------------------
// The scripted manager

#[derive(Debug, Clone, Copy, PartialEq, Eq)]
pub struct MErr(pub u32);

#[derive(Debug)]
pub struct Obj {
    pub id: usize,
}

impl Obj {
    fn new() -> Obj {
        let id = w(|w| w.new_obj());
        trace!("  object {} constructed", id);
        Obj { id }
    }
}

impl Drop for Obj {
    fn drop(&mut self) {
        let id = self.id;
        let who = who();
        let _ = try_w(|w| {
            let op = w.ops.get(&who).map(|o| o.0);
            let o = &mut w.objs[id];
            o.alive = false;
            o.destroyed_in = op;
            o.in_flight = false;
            if op.is_none() {
                w.violate(&["C08"], "destructor-outside-operation", format!("object {} destroyed while caller {} was in no pool operation", id, who));
            }
        });
        trace!("  object {} destroyed", id);
    }
}

pub struct Mgr;

struct EnvGuard {
    who: usize,
    site: Site,
    obj: Option<usize>,
    done: bool,
}

thread_local! {
    /// Sequential harness only: "is the pool's slots lock held right now?"
    /// (the snapshot accessor uses try_lock).  With one controller and no other
    /// actor a held lock can only be held by the call chain that is running.
    static LOCK_PROBE: RefCell<Option<Box<dyn Fn() -> bool>>> = const { RefCell::new(None) };
}

pub fn set_lock_probe(p: Option<Box<dyn Fn() -> bool>>) {
    // the old probe holds a pool handle: it is dropped outside the borrow (a
    // pool whose drop calls the manager would otherwise re-enter this cell)
    let old = LOCK_PROBE.with(|c| c.borrow_mut().take());
    drop(old);
    LOCK_PROBE.with(|c| *c.borrow_mut() = p);
}

/// A manager or hook that calls back into the pool (`status()`, a gauge, a
/// registry) deadlocks `get()` if it is invoked while `get()` holds the slots
/// lock: C02 "get() itself never ... deadlocks".  (`retain()` documents that
/// its predicate and the detach of rejected objects run under the lock.)
fn check_not_under_pool_lock(what: &str) {
    let held = LOCK_PROBE.with(|c| c.borrow().as_ref().map(|f| f()).unwrap_or(false));
    if held {
        let _ = try_w(|w| {
            if !w.in_retain && w.cur_get(w.seq_actor.unwrap_or(usize::MAX)).is_some() {
                // C02: re-entry deadlocks; C03: a panic of that call poisons the
                // lock, after which the pool is not "as if the call had never happened"
                w.violate(&["C02", "C03"], "manager-called-under-pool-lock", format!("{} was invoked by get() while the pool's slots lock was held: a manager or hook that calls back into the pool would deadlock, one that panics poisons the pool", what));
            }
        });
    }
}

impl EnvGuard {
    fn enter(site: Site, obj: Option<usize>, m: Option<Metrics>) -> EnvGuard {
        check_not_under_pool_lock(&format!("{:?}", site));
        let who = who();
        w(|w| w.env_enter(who, site, obj, m));
        EnvGuard { who, site, obj, done: false }
    }
    fn finish(mut self, r: Result<(), u32>) {
        self.done = true;
        let (who, site, obj) = (self.who, self.site, self.obj);
        w(|w| w.env_exit(who, site, obj, Some(r)));
    }
}

impl Drop for EnvGuard {
    fn drop(&mut self) {
        if !self.done {
            let (who, site, obj) = (self.who, self.site, self.obj);
            let _ = try_w(|w| w.env_exit(who, site, obj, None));
        }
    }
}

fn menu_for(w: &World, site: Site) -> Vec<Out> {
    match site {
        Site::Create => w.cfg.create_menu.clone(),
        Site::Recycle => w.cfg.recycle_menu.clone(),
        Site::PreRecycle(i) => w.cfg.pre_recycle[i as usize].menu.clone(),
        Site::PostRecycle(i) => w.cfg.post_recycle[i as usize].menu.clone(),
        Site::PostCreate(i) => w.cfg.post_create[i as usize].menu.clone(),
    }
}

fn pick(site: Site) -> Out {
    let (forced, mut menu) = w(|w| (w.forced_ok, menu_for(w, site)));
    if forced {
        return Out::Ok;
    }
    if sched::any_mutex_held() {
        menu.retain(|o| *o != Out::Panic);
    }
    if menu.len() <= 1 {
        return menu.first().copied().unwrap_or(Out::Ok);
    }
    let free = w(|w| w.cfg.free_faults);
    let mut costs = vec![if free { Cost::FREE } else { Cost::F }; menu.len()];
    costs[0] = Cost::FREE;
    let k = choose(&costs);
    trace!("  env {:?} -> {:?}", site, menu[k]);
    menu[k]
}

fn next_errno() -> u32 {
    w(|w| {
        w.errno += 1;
        w.errno
    })
}

/// The synchronous part of a manager / async-hook call: the call is entered,
/// its outcome decided, and an injected panic raised right here (a manager may
/// do - and fail in - synchronous work before it returns its future).
fn env_begin(site: Site, obj: Option<usize>, m: Option<Metrics>) -> (EnvGuard, Out) {
    let g = EnvGuard::enter(site, obj, m);
    let out = pick(site);
    if out == Out::Panic {
        let who = g.who;
        w(|w| {
            if let Some(gi) = w.cur_get(who) {
                w.gets[gi].injected_panic = true;
            }
        });
        panic!("{}", INJECTED);
    }
    (g, out)
}

async fn env_async(site: Site, obj: Option<usize>, m: Option<Metrics>) -> Result<(), u32> {
    let pre = env_begin(site, obj, m);
    env_rest(site, pre).await
}

async fn env_rest(site: Site, (g, out): (EnvGuard, Out)) -> Result<(), u32> {
    let auto = w(|w| w.cfg.auto_gates);
    let r = match out {
        Out::Ok => Ok(()),
        Out::Err => Err(next_errno()),
        Out::PendOk => {
            let gate = sched::gate(&format!("{:?}->ok", site), auto);
            let gid = gate.id();
            w(|w| {
                if let Some(l) = w.env_log.last_mut() {
                    l.gate = Some(gid);
                }
            });
            gate.await;
            Ok(())
        }
        Out::PendErr => {
            let gate = sched::gate(&format!("{:?}->err", site), auto);
            let gid = gate.id();
            w(|w| {
                if let Some(l) = w.env_log.last_mut() {
                    l.gate = Some(gid);
                }
            });
            gate.await;
            Err(next_errno())
        }
        Out::Never => {
            sched::gate("never", false).await;
            Ok(())
        }
        Out::Panic => unreachable!("raised in the synchronous part"),
    };
    g.finish(r);
    r
}

fn env_sync(site: Site, obj: Option<usize>, m: Option<Metrics>) -> Result<(), u32> {
    let g = EnvGuard::enter(site, obj, m);
    let out = pick(site);
    let r = match out {
        Out::Ok => Ok(()),
        Out::Panic => {
            let who = g.who;
            w(|w| {
                if let Some(gi) = w.cur_get(who) {
                    w.gets[gi].injected_panic = true;
                }
            });
            panic!("{}", INJECTED);
        }
        _ => Err(next_errno()),
    };
    g.finish(r);
    r
}

impl Manager for Mgr {
    type Type = Obj;
    type Error = MErr;

    // create() and recycle() have a synchronous part (the call is entered and
    // may panic there) and return the rest as a future
    fn create(&self) -> impl std::future::Future<Output = Result<Obj, MErr>> + Send {
        let pre = env_begin(Site::Create, None, None);
        async move {
            env_rest(Site::Create, pre).await.map_err(MErr)?;
            Ok(Obj::new())
        }
    }

    fn recycle(&self, obj: &mut Obj, metrics: &Metrics) -> impl std::future::Future<Output = RecycleResult<MErr>> + Send {
        let pre = env_begin(Site::Recycle, Some(obj.id), Some(*metrics));
        async move { env_rest(Site::Recycle, pre).await.map_err(|n| RecycleError::Backend(MErr(n))) }
    }

    fn detach(&self, obj: &mut Obj) {
        let id = obj.id;
        trace!("  detach object {}", id);
        check_not_under_pool_lock("Manager::detach");
        let who = who();
        let _ = try_w(|w| {
            // "the pool invokes the manager ... only from inside get(), retain(),
            // take(), resize(), close() or the return of an object"
            match w.ops.get(&who).map(|o| o.0) {
                None => w.violate(&["C08"], "detach-outside-operation", format!("Manager::detach(object {}) invoked while caller {} was in no pool operation", id, who)),
                // dropping a pool handle is not among the listed operations
                Some(OpKind::DropPool) => w.violate(&["C08"], "detach-outside-operation", format!("Manager::detach(object {}) invoked from the drop of a pool handle", id)),
                _ => {}
            }
            w.objs[id].detach += 1;
            if w.objs[id].detach > 1 {
                w.violate(&["C09"], "detach-twice", format!("Manager::detach called {} times for object {}", w.objs[id].detach, id));
            }
        });
    }
}

fn mk_hook(site: Site, asynchronous: bool) -> Hook<Mgr> {
    if asynchronous {
        Hook::async_fn(move |obj: &mut Obj, m: &Metrics| {
            let id = obj.id;
            let m = *m;
            Box::pin(async move { env_async(site, Some(id), Some(m)).await.map_err(|n| HookError::Backend(MErr(n))) })
        })
    } else {
        Hook::sync_fn(move |obj: &mut Obj, m: &Metrics| env_sync(site, Some(obj.id), Some(*m)).map_err(|n| HookError::Backend(MErr(n))))
    }
}

/// Builds the pool for the current world. Nothing may call into the manager
/// or the hooks while this runs (C08).
pub fn build_pool() -> Pool<Mgr> {
    build_pool_with(deadpool::managed::Timeouts::new(), None).expect("build without timeouts never fails")
}

pub fn build_pool_with(timeouts: deadpool::managed::Timeouts, runtime: Option<deadpool::Runtime>) -> Result<Pool<Mgr>, deadpool::managed::BuildError> {
    let cfg = w(|w| {
        w.begin_op(0, OpKind::Build);
        w.cfg.clone()
    });
    // The same configuration, said in different ways: whatever the order and
    // flavour of the builder calls, the pool must be built with exactly this
    // max_size, these timeouts, this queue mode and this runtime.
    let qm = if cfg.lifo { QueueMode::Lifo } else { QueueMode::Fifo };
    let variant = if cfg.builder_sweep { dpmc::explorer::choose_free(7) } else { 0 };
    trace!("builder variant {}", variant);
    let b0 = Pool::builder(Mgr);
    let mut b = match variant {
        0 => b0.max_size(cfg.max_size).timeouts(timeouts).queue_mode(qm),
        1 => b0.queue_mode(qm).timeouts(timeouts).max_size(cfg.max_size),
        2 => b0.queue_mode(qm).max_size(cfg.max_size).wait_timeout(timeouts.wait).create_timeout(timeouts.create).recycle_timeout(timeouts.recycle),
        3 => b0.recycle_timeout(timeouts.recycle).create_timeout(timeouts.create).wait_timeout(timeouts.wait).max_size(cfg.max_size).queue_mode(qm),
        4 => b0.config(deadpool::managed::PoolConfig { max_size: cfg.max_size, timeouts, queue_mode: qm }),
        5 => b0.config(deadpool::managed::PoolConfig { max_size: cfg.max_size + 1, timeouts: deadpool::managed::Timeouts::new(), queue_mode: qm }).timeouts(timeouts).max_size(cfg.max_size),
        _ => b0.max_size(cfg.max_size).queue_mode(qm).timeouts(deadpool::managed::Timeouts { wait: Some(std::time::Duration::from_secs(1)), create: None, recycle: None }).timeouts(timeouts),
    };
    if let Some(rt) = runtime {
        b = b.runtime(rt);
    }
    if variant >= 3 {
        // setters called after the runtime was chosen must not disturb it either
        b = b.max_size(cfg.max_size).queue_mode(qm);
    }
    for (i, h) in cfg.pre_recycle.iter().enumerate() {
        b = b.pre_recycle(mk_hook(Site::PreRecycle(i as u8), h.asynchronous));
    }
    for (i, h) in cfg.post_recycle.iter().enumerate() {
        b = b.post_recycle(mk_hook(Site::PostRecycle(i as u8), h.asynchronous));
    }
    for (i, h) in cfg.post_create.iter().enumerate() {
        b = b.post_create(mk_hook(Site::PostCreate(i as u8), h.asynchronous));
    }
    let pool = b.build();
    w(|w| {
        if w.events > 0 || !w.objs.is_empty() {
            w.violate(&["C08"], "work-during-build", "building the pool invoked the manager or a hook".to_string());
        }
        w.end_op(0);
    });
    pool
}

// ---------------------------------------------------------------------
// Pool operations as performed by an actor or by the sequential driver

/// Result of one completed get (for drivers that poll by hand).
pub fn finish_get(who: usize, gi: usize, r: Result<Object<Mgr>, PoolError<MErr>>) {
    match r {
        Ok(o) => {
            let id = o.id;
            let m = *Object::metrics(&o);
            trace!("  caller {} get -> object {}", who, id);
            w(|w| {
                w.handout(who, gi, id, m);
                w.hands.entry(who).or_default().push(o);
                w.end_op(who);
            });
        }
        Err(e) => {
            trace!("  caller {} get -> {:?}", who, e);
            w(|w| {
                w.get_error(gi, &e);
                w.end_op(who);
            });
        }
    }
}

/// Returns the most recently obtained object of `who` to the pool.
pub fn op_release(who: usize) -> bool {
    let o = w(|w| w.hands.get_mut(&who).and_then(|v| v.pop()));
    let Some(o) = o else { return false };
    let id = o.id;
    trace!("  caller {} returns object {}", who, id);
    let (closed_before, fits) = w(|w| {
        w.begin_op(who, OpKind::Release);
        // on a pool that was never resized or closed an object that comes back
        // while no more than max_size objects exist is not surplus
        let fits = w.resizes_begun == 0 && !w.close_begun && w.handles > 0 && w.live() <= w.limit;
        w.objs[id].loc = Loc::Pool;
        w.objs[id].returning += 1;
        (w.close_returned, fits)
    });
    drop(o);
    w(|w| {
        w.objs[id].returning -= 1;
        if fits && !w.objs[id].alive && w.resizes_begun == 0 && !w.close_begun && w.handles > 0 {
            // the pool let go of an object it had room for: what retain() / take()
            // did before must not shrink what the pool can hold (C09); on a pool
            // that saw neither, returned objects are what get() offers next (C08)
            let props: &[&'static str] = if w.takes_retains > 0 { &["C09"] } else { &["C08"] };
            w.violate(props, "returned-object-discarded", format!("object {} came back to a pool holding {} of {} objects and was discarded instead of being kept", id, w.live(), w.limit));
        }
        // kept = still alive AND still the pool's (a concurrent retain() may
        // have handed it to its caller in the meantime)
        let alive = w.objs[id].alive && w.objs[id].loc == Loc::Pool;
        if !w.objs[id].alive && w.handles == 0 && w.objs[id].detach == 0 {
            // no pool left to return to: the object simply goes away
            w.objs[id].destroyed_in = Some(OpKind::DropPool);
        }
        if alive {
            if closed_before {
                w.violate(&["C06"], "returned-object-kept-after-close", format!("object {} returned after close() had returned was kept by the pool", id));
            }
            // "surplus" is only unambiguous when every live object is
            // accounted for (nothing being created, tried or returned by an
            // operation still in progress)
            let settled = w.creating == 0
                && !w.objs.iter().any(|o| o.alive && o.in_flight)
                && w.ops.iter().all(|(k, o)| *k == who || !matches!(o.0, OpKind::Release | OpKind::Take | OpKind::Resize));
            if settled && w.resizes_begun == w.resize_epoch && w.resizes_begun > 0 && !w.close_begun && w.live() > w.limit.max(w.limit_alt.unwrap_or(0)) {
                w.violate(&["C07"], "surplus-kept-on-return", format!("object {} came back and was kept although {} objects exist and the limit is {}", id, w.live(), w.limit));
            }
            w.ref_idle.push_back(id);
        }
        w.end_op(who);
    });
    true
}

pub fn op_take(who: usize, pool: Option<&Pool<Mgr>>) -> bool {
    let o = w(|w| w.hands.get_mut(&who).and_then(|v| v.pop()));
    let Some(o) = o else { return false };
    let id = o.id;
    trace!("  caller {} takes object {}", who, id);
    // "shrinks the pool by one": the pool's own size figure before and after,
    // compared when nothing else can have changed it in between (task level,
    // or no other operation in progress or begun meanwhile)
    let size_before = pool.and_then(|p| p.verif_snapshot()).map(|s| s.size);
    let (ticks0, alone0) = w(|w| {
        w.begin_op(who, OpKind::Take);
        w.takes_retains += 1;
        w.objs[id].loc = Loc::Taken;
        (w.op_ticks, w.ops.len() == 1 && w.creating == 0)
    });
    let inner = Object::take(o);
    let size_after = pool.and_then(|p| p.verif_snapshot()).map(|s| s.size);
    w(|w| {
        let undisturbed = w.task_level || (alone0 && w.op_ticks == ticks0 && w.ops.len() == 1 && w.creating == 0);
        if let (Some(b), Some(a), true) = (size_before, size_after, undisturbed) {
            if a.wrapping_add(1) != b {
                w.violate(&["C09"], "take-did-not-shrink-pool", format!("Object::take of object {}: the pool's size went from {} to {} (status().size must drop by exactly one)", id, b, a));
            }
        }
        if inner.id != id {
            w.violate(&["C09"], "take-wrong-object", format!("Object::take returned object {} instead of {}", inner.id, id));
        }
        w.keep.push(inner);
        w.end_op(who);
    });
    true
}

pub fn op_retain(who: usize, pool: &Pool<Mgr>) {
    trace!("  caller {} retain", who);
    w(|w| {
        w.begin_op(who, OpKind::Retain);
        w.takes_retains += 1;
        w.in_retain = true;
    });
    let mut visited: Vec<(usize, bool)> = Vec::new();
    // Objects that are certainly in the idle queue while retain() holds the
    // lock: determined at the first predicate call (which happens under the
    // lock) - pool-owned, not in the hands of a get(), and not in the middle of
    // being returned.
    let certainly_idle = |w: &World| -> Vec<usize> { w.objs.iter().enumerate().filter(|(_, o)| o.alive && o.loc == Loc::Pool && !o.in_flight && o.returning == 0).map(|(i, _)| i).collect() };
    let idle_at_start: Vec<(usize, u32)> = w(|w| certainly_idle(w).into_iter().map(|i| (i, w.objs[i].handouts as u32)).collect());
    let mut must_visit: Option<Vec<usize>> = None;
    let r = pool.retain(|o: &Obj, m: Metrics| {
        let id = o.id;
        // the predicate is user code: other threads run while it does (on the
        // unchanged pool they can only queue up behind the slots lock)
        sched::pause("retain predicate");
        if must_visit.is_none() {
            must_visit = Some(w(|w| certainly_idle(w)));
        }
        let keep = choose_free(2) == 0;
        trace!("    predicate(object {}) -> {}", id, keep);
        w(|w| {
            let rec = &w.objs[id];
            let bad_place = !rec.alive || rec.loc != Loc::Pool || rec.in_flight;
            let shown = rec.shown;
            if bad_place {
                w.violate(&["C09"], "retain-touched-non-idle", format!("retain() offered object {} which is not idle ({:?})", id, w.objs[id].loc));
            }
            if let Some((rec_i, cnt)) = shown {
                if rec_i != m.recycled || cnt != m.recycle_count {
                    w.violate(&["C13"], "retain-metrics", format!("retain() saw metrics of object {} that differ from Object::metrics() at its last hand-out", id));
                }
            }
            if !keep {
                w.objs[id].loc = Loc::RetainedOut;
            }
        });
        visited.push((id, keep));
        keep
    });
    w(|w| {
        w.in_retain = false;
        let exp_removed: Vec<usize> = visited.iter().filter(|v| !v.1).map(|v| v.0).collect();
        let got_removed: Vec<usize> = r.removed.iter().map(|o| o.id).collect();
        let exp_retained = visited.iter().filter(|v| v.1).count();
        let (mut e2, mut g2) = (exp_removed.clone(), got_removed.clone());
        e2.sort();
        g2.sort();
        if e2 != g2 {
            w.violate(&["C09"], "retain-removed-set", format!("retain() removed {:?}, predicate rejected {:?}", got_removed, exp_removed));
        }
        if r.retained != exp_retained {
            w.violate(&["C09"], "retain-count", format!("retain() reports {} retained, predicate kept {}", r.retained, exp_retained));
        }
        // every object that certainly sat in the queue while retain() held the
        // lock must have been offered to the predicate
        let required: Vec<usize> = match &must_visit {
            Some(v) => v.clone(),
            // the predicate was never called: require what was idle before the
            // call and is still untouched after it
            None => {
                let now = certainly_idle(w);
                idle_at_start.iter().filter(|(i, h)| now.contains(i) && w.objs[*i].handouts as u32 == *h).map(|(i, _)| *i).collect()
            }
        };
        let missed: Vec<usize> = required.iter().copied().filter(|i| !visited.iter().any(|v| v.0 == *i)).collect();
        if !missed.is_empty() && !w.close_begun && (w.resizes_begun == w.resize_epoch) {
            w.violate(&["C09"], "retain-missed-idle-object", format!("retain() did not offer idle objects {:?} to the predicate (offered {:?})", missed, visited.iter().map(|v| v.0).collect::<Vec<_>>()));
        }
        if w.cfg.exact_order {
            // the set matters (C09), not the order in which retain walks it
            let mut idle: Vec<usize> = w.ref_idle.iter().copied().collect();
            let mut seen: Vec<usize> = visited.iter().map(|v| v.0).collect();
            idle.sort();
            seen.sort();
            if idle != seen {
                w.violate(&["C09"], "retain-visited-set", format!("retain() offered {:?}, idle objects are {:?}", seen, idle));
            }
        }
        w.ref_idle.retain(|x| !exp_removed.contains(x));
        // objects the pool kept although the predicate said no stay pool-owned
        for (id, keep) in &visited {
            if !keep && !got_removed.contains(id) {
                w.objs[*id].loc = Loc::Pool;
            }
        }
        w.end_op(who);
    });
    let removed = r.removed;
    w(|w| w.keep.extend(removed));
}

pub fn op_resize(who: usize, pool: &Pool<Mgr>, n: usize) {
    trace!("  caller {} resize({})", who, n);
    w(|w| {
        w.begin_op(who, OpKind::Resize);
        if w.resizes_begun != w.resize_epoch {
            w.overlap = true;
        }
        w.resizes_begun += 1;
    });
    pool.resize(n);
    w(|w| {
        w.resize_epoch += 1;
        if !w.close_returned {
            let prev = w.limit;
            w.limit = n;
            // overlapping resizes may have been applied in either order
            w.limit_alt = if w.overlap { Some(prev) } else { None };
            if w.resizes_begun == w.resize_epoch {
                w.overlap = false;
            }
        }
        let dropped: Vec<usize> = w.ref_idle.iter().copied().filter(|i| !w.objs[*i].alive).collect();
        w.ref_idle.retain(|x| !dropped.contains(x));
        w.end_op(who);
    });
}

pub fn op_close(who: usize, pool: &Pool<Mgr>) {
    trace!("  caller {} close()", who);
    w(|w| {
        w.begin_op(who, OpKind::Close);
        w.close_begun = true;
    });
    pool.close();
    // "once close() has returned ... is_closed() stays true" - for every
    // close() call, also one that found another close() in progress
    let closed_now = pool.is_closed();
    w(|w| {
        if !closed_now {
            w.violate(&["C06"], "is-closed-false", "is_closed() is false right after close() returned".to_string());
        }
        w.close_returned = true;
        w.limit = 0;
        w.limit_alt = None;
        let dropped: Vec<usize> = w.ref_idle.iter().copied().filter(|i| !w.objs[*i].alive).collect();
        w.ref_idle.retain(|x| !dropped.contains(x));
        w.end_op(who);
    });
}
