//! H-seq: one controller explores every history of pool operations up to a
//! depth. Concurrent get() calls are futures the controller polls by hand, so
//! every await point is a place where other operations (including abandoning
//! the call) can be interleaved.

use std::hash::{Hash, Hasher};
use std::panic::{catch_unwind, AssertUnwindSafe};

use deadpool::managed::{Object, Pool, PoolError, Timeouts};
use dpmc::explorer::{self, choose, note_state, Cost, Outcome, Violation};
use dpmc::sched::{self, Task};
use dpmc::trace;

use crate::conc::{check_exact, check_plausible, drop_handle, probe};
use crate::mworld::*;

#[derive(Clone, Debug)]
pub struct SeqScenario {
    pub cfg: PoolCfg,
    pub depth: usize,
    pub max_tasks: usize,
    pub gets_blocking: bool,
    pub gets_nonblocking: bool,
    pub cancel: bool,
    pub take: bool,
    pub retain: bool,
    pub resize_targets: Vec<usize>,
    pub close: bool,
    pub stop_anywhere: bool,
    pub base: Vec<&'static str>,
    pub prefill: usize,
    /// Reachability mode: prune histories at abstract states that were
    /// already reached at the same or a smaller depth (shared visited map).
    pub reach: Option<std::sync::Arc<std::sync::Mutex<std::collections::HashMap<u64, u16>>>>,
    /// Build the pool with (one hour) wait/create/recycle timeouts and the
    /// tokio runtime: the timeout wrappers are on every path but never fire.
    pub timeouts: bool,
    /// ... with `Duration::MAX` (the "never" idiom) instead of one hour.
    pub timeouts_max: bool,
    /// Breadth-first mode: an execution ends after the first step past its
    /// replay prefix and reports the state it reached (explorer::bfs_visit).
    pub bfs: bool,
}

impl SeqScenario {
    pub fn new(cfg: PoolCfg, depth: usize, base: &[&'static str]) -> Self {
        let mut cfg = cfg;
        cfg.auto_gates = false;
        cfg.exact_order = true;
        SeqScenario {
            cfg,
            depth,
            max_tasks: 3,
            gets_blocking: true,
            gets_nonblocking: true,
            cancel: true,
            take: true,
            retain: false,
            resize_targets: vec![],
            close: false,
            stop_anywhere: true,
            base: base.to_vec(),
            prefill: 0,
            reach: None,
            timeouts: false,
            timeouts_max: false,
            bfs: false,
        }
    }

    /// Turns the scenario into a reachability exploration: environment answers
    /// and cancellations are free choices, `depth` is only a horizon.
    pub fn reachability(mut self, horizon: usize) -> Self {
        self.cfg.free_faults = true;
        self.depth = horizon;
        self.reach = Some(Default::default());
        self
    }

    /// Breadth-first reachability to closure (see `explorer::explore_bfs`).
    pub fn breadth_first(mut self) -> Self {
        self.cfg.free_faults = true;
        self.depth = usize::MAX;
        self.reach = None;
        self.bfs = true;
        self
    }
}

#[derive(Clone, Debug)]
enum SOp {
    Start { nb: bool },
    Poll(usize),
    Fire(usize),
    Cancel(usize),
    Release(usize),
    Take(usize),
    Retain,
    Resize(usize),
    Close,
    Stop,
}

type GetResult = Result<Object<Mgr>, PoolError<MErr>>;

struct STask {
    who: usize,
    gi: usize,
    task: Task<GetResult>,
}

fn nb_timeouts() -> Timeouts {
    Timeouts {
        wait: Some(std::time::Duration::ZERO),
        create: None,
        recycle: None,
    }
}

fn poll_task(t: &mut STask) -> bool {
    w(|w| w.seq_actor = Some(t.who));
    let r = catch_unwind(AssertUnwindSafe(|| t.task.poll()));
    let done = match r {
        Ok(None) => false,
        Ok(Some(r)) => {
            finish_get(t.who, t.gi, r);
            true
        }
        Err(p) => {
            let m = explorer::panic_msg(&p);
            trace!("  caller {} get panicked: {}", t.who, m);
            t.task.cancel();
            let (who, gi) = (t.who, t.gi);
            w(|w| {
                w.get_panicked(gi, &m);
                w.end_op(who);
            });
            true
        }
    };
    w(|w| w.seq_actor = None);
    done
}

fn as_who<R>(who: usize, f: impl FnOnce() -> R) -> R {
    w(|w| w.seq_actor = Some(who));
    let r = catch_unwind(AssertUnwindSafe(f));
    w(|w| w.seq_actor = None);
    match r {
        Ok(r) => r,
        Err(p) => {
            let m = explorer::panic_msg(&p);
            w(|w| {
                let b = w.blame();
                w.violate(&b, "panic-in-operation", format!("pool operation panicked: {}", m));
                w.end_op(who);
            });
            std::panic::resume_unwind(p)
        }
    }
}

fn guarded_as(who: usize, f: impl FnOnce()) {
    let _ = catch_unwind(AssertUnwindSafe(|| as_who(who, f)));
}

fn fingerprint(pool: &Pool<Mgr>, tasks: &[STask]) -> u64 {
    let mut h = std::collections::hash_map::DefaultHasher::new();
    pool.verif_snapshot().hash(&mut h);
    w(|w| {
        for o in &w.objs {
            (o.alive, o.loc, o.in_flight, o.rejected, o.handouts, o.detach).hash(&mut h);
        }
        (w.creating, w.limit, w.close_returned, w.resize_epoch).hash(&mut h);
        for g in &w.gets {
            (g.in_env, &g.outcome).hash(&mut h);
        }
        w.ref_idle.hash(&mut h);
    });
    for t in tasks {
        (t.who, t.task.woken()).hash(&mut h);
    }
    sched::pending_gates().len().hash(&mut h);
    h.finish()
}

/// Canonical abstract state for reachability pruning. Everything the pool's
/// and the oracles' future behaviour depends on, with object and task
/// identities replaced by their position and the unbounded counters
/// (recycle counts, error numbers, ids) left out:
/// * pool: permits, closed, size, max_size, owed, idle length, users;
/// * every idle object in queue order, every checked-out object per holder
///   (holders in creation order), every object a pending get has in hand:
///   rejected / in-flight flags, detach count, "handed out before", pending
///   pipeline steps;
/// * every pending get in creation order (= semaphore queue order): blocking
///   or not, woken or not, which manager/hook call it is suspended in;
/// * limit in force, close / resize / abandonment flags, pending gates.
/// Destroyed objects and objects handed over to the caller are left out:
/// their ledger is judged by the Stop branch of the first visitor.
fn canon(pool: &Pool<Mgr>, tasks: &[STask], closes: usize) -> u64 {
    let mut h = std::collections::hash_map::DefaultHasher::new();
    pool.verif_snapshot().hash(&mut h);
    // where each idle object really sits in the pool's queue, relative to the
    // reference queue (identity through the creation instant): a pool whose
    // queue order differs from the reference is a different state
    let actual = pool.verif_idle_order().unwrap_or_default();
    w(|w| {
        for inst in &actual {
            let pos = w.ref_idle.iter().position(|id| w.objs[*id].created == Some(*inst));
            pos.hash(&mut h);
        }
    });
    w(|w| {
        let obj = |id: usize, h: &mut std::collections::hash_map::DefaultHasher| {
            let o = &w.objs[id];
            (o.alive, o.in_flight, o.rejected, o.detach, o.handouts > 0, &o.steps).hash(h);
        };
        0xA1u8.hash(&mut h);
        for id in &w.ref_idle {
            obj(*id, &mut h);
        }
        // pool-owned alive objects that are not in the reference queue (in flight)
        0xA2u8.hash(&mut h);
        for (id, o) in w.objs.iter().enumerate() {
            if o.alive && o.loc == Loc::Pool && !w.ref_idle.contains(&id) {
                obj(id, &mut h);
            }
        }
        0xA3u8.hash(&mut h);
        for (_who, objs) in w.hands.iter() {
            if objs.is_empty() {
                continue;
            }
            0xB0u8.hash(&mut h);
            for o in objs {
                obj(o.id, &mut h);
            }
        }
        0xA4u8.hash(&mut h);
        for t in tasks {
            let g = &w.gets[t.gi];
            // how many objects the call has already tried / which errors it has
            // already absorbed does not influence anything that happens later
            (g.nonblocking, g.in_env, t.task.woken(), g.started_after_close, g.epoch_at_start == w.resize_epoch, g.resize_in_progress_at_start).hash(&mut h);
        }
        (w.creating, w.limit, w.limit_alt, w.close_begun, w.close_returned, w.resizes_begun > 0, w.resizes_begun == w.resize_epoch, w.abandoned > 0, w.abandon_mark, w.overlap).hash(&mut h);
    });
    let gates: Vec<String> = sched::pending_gates().into_iter().map(|g| g.1).collect();
    gates.hash(&mut h);
    if std::env::var_os("DPMC_DEBUG_CANON").is_some() {
        w(|w| {
            eprintln!("CANON snap={:?} idle={:?} objs={:?} tasks={:?} flags={:?} gates={:?}", pool.verif_snapshot(), w.ref_idle, w.objs.iter().enumerate().filter(|(_, o)| o.alive).map(|(i, o)| (i, o.loc, o.in_flight, o.rejected, o.detach, o.handouts > 0, o.steps.clone())).collect::<Vec<_>>(), tasks.iter().map(|t| { let g = &w.gets[t.gi]; (g.nonblocking, g.in_env, t.task.woken(), g.tried.len(), g.env_errs.len()) }).collect::<Vec<_>>(), (w.creating, w.limit, w.abandoned > 0, w.abandon_mark), gates);
        });
    }
    closes.min(2).hash(&mut h);
    h.finish()
}

/// Checks evaluated after every step of a history.
fn after_step(pool: &Pool<Mgr>, tasks: &[STask]) {
    let st = pool.status();
    let any_in_env = w(|w| w.gets.iter().any(|g| g.outcome.is_none() && g.in_env.is_some()));
    // callers blocked waiting for a slot
    let mut unwoken_waiters = Vec::new();
    let mut woken_waiters = 0usize;
    for t in tasks {
        let in_env = w(|w| w.gets[t.gi].in_env.is_some());
        if in_env {
            continue;
        }
        if t.task.woken() {
            woken_waiters += 1;
        } else {
            unwoken_waiters.push(t.who);
        }
    }
    w(|w| {
        check_plausible(w, &st, "after a step");
        if !any_in_env && woken_waiters == 0 {
            check_exact(w, &st, unwoken_waiters.len(), "at rest");
        }
        if !unwoken_waiters.is_empty() {
            if w.close_returned {
                w.violate(&["C06", "C02"], "waiter-stranded-after-close", format!("callers {:?} are still blocked in get() after close() returned", unwoken_waiters));
            } else {
                let in_env_gets = w.gets.iter().filter(|g| g.outcome.is_none() && g.in_env.is_some()).count();
                let in_use = w.held() + in_env_gets + woken_waiters;
                let lim = w.limit;
                if in_use < lim {
                    let b = w.blame();
                    w.violate(&b, "waiter-stranded", format!("callers {:?} are blocked in get() although only {} of {} slots are in use", unwoken_waiters, in_use, lim));
                }
            }
        }
    });
}

pub fn run_seq(sc: &SeqScenario) -> Outcome {
    sched::begin();
    init_world(sc.cfg.clone(), &sc.base);
    w(|w| w.task_level = true);
    // a paused clock that nobody advances: configured timeouts never expire
    let rt = if sc.timeouts { Some(tokio::runtime::Builder::new_current_thread().enable_time().start_paused(true).build().expect("runtime")) } else { None };
    let _enter = rt.as_ref().map(|r| r.enter());
    let pool = if sc.timeouts {
        let hour = Some(if sc.timeouts_max { std::time::Duration::MAX } else { std::time::Duration::from_secs(3600) });
        build_pool_with(Timeouts { wait: hour, create: hour, recycle: hour }, Some(deadpool::Runtime::Tokio1)).expect("build with runtime")
    } else {
        build_pool()
    };
    w(|w| w.handles = 1);
    {
        // see `check_not_under_pool_lock`; the clone is dropped before the last
        // handle is (end of this function)
        let probe_pool = pool.clone();
        set_lock_probe(Some(Box::new(move || probe_pool.verif_snapshot().is_none())));
    }
    if sc.prefill > 0 {
        w(|w| {
            w.forced_ok = true;
            w.seq_actor = Some(PROBE);
        });
        for _ in 0..sc.prefill {
            let gi = w(|w| w.begin_get(PROBE, true));
            let p = pool.clone();
            let mut t = Task::new(async move { p.timeout_get(&nb_timeouts()).await });
            match t.poll() {
                Some(r) => finish_get(PROBE, gi, r),
                None => panic!("prefill get pending"),
            }
        }
        // return in acquisition order
        let mut objs: Vec<Object<Mgr>> = w(|w| w.hands.remove(&PROBE).unwrap_or_default());
        objs.reverse();
        w(|w| {
            w.hands.insert(PROBE, objs);
        });
        while op_release(PROBE) {}
        w(|w| {
            w.forced_ok = false;
            w.seq_actor = None;
        });
    }
    let mut tasks: Vec<STask> = Vec::new();
    let mut next_who = 1usize;
    let mut closed = false;
    let mut closes = 0usize;
    let mut pruned = false;
    let mut steps = 0usize;
    while steps < sc.depth && w(|w| w.own_clean()) {
        // enabled operations, benign first
        let mut ops: Vec<(SOp, Cost)> = Vec::new();
        for t in tasks.iter() {
            if t.task.woken() {
                ops.push((SOp::Poll(t.who), Cost::FREE));
            }
        }
        for (g, label) in sched::pending_gates() {
            if label != "never" {
                ops.push((SOp::Fire(g), Cost::FREE));
            }
        }
        let holders: Vec<usize> = w(|w| w.hands.iter().filter(|(k, v)| **k != PROBE && !v.is_empty()).map(|(k, _)| *k).collect());
        for h in &holders {
            ops.push((SOp::Release(*h), Cost::FREE));
        }
        if tasks.len() < sc.max_tasks {
            if sc.gets_blocking {
                ops.push((SOp::Start { nb: false }, Cost::FREE));
            }
            if sc.gets_nonblocking {
                ops.push((SOp::Start { nb: true }, Cost::FREE));
            }
        }
        if sc.take {
            for h in &holders {
                ops.push((SOp::Take(*h), Cost::FREE));
            }
        }
        if sc.retain && w(|w| w.idle()) > 0 {
            ops.push((SOp::Retain, Cost::FREE));
        }
        for n in &sc.resize_targets {
            ops.push((SOp::Resize(*n), Cost::FREE));
        }
        if sc.close && closes < 2 {
            ops.push((SOp::Close, Cost::FREE));
        }
        if sc.cancel {
            for t in tasks.iter() {
                ops.push((SOp::Cancel(t.who), if sc.reach.is_some() || sc.bfs { Cost::FREE } else { Cost::F }));
            }
        }
        if sc.stop_anywhere || ops.is_empty() {
            ops.push((SOp::Stop, Cost::FREE));
        }
        if ops[0].1 != Cost::FREE {
            // only cancellations possible: stopping is the default
            ops.insert(0, (SOp::Stop, Cost::FREE));
        }
        // in breadth-first mode this is the one step after the replayed prefix
        let fresh_step = sc.bfs && explorer::past_root();
        let costs: Vec<Cost> = ops.iter().map(|o| o.1).collect();
        let k = choose(&costs);
        let op = ops[k].0.clone();
        trace!("op {:?}", op);
        explorer::count_step();
        steps += 1;
        match op {
            SOp::Stop => break,
            SOp::Start { nb } => {
                let who = next_who;
                next_who += 1;
                let gi = w(|w| w.begin_get(who, nb));
                let p = pool.clone();
                let use_pool_level = sc.timeouts;
                let task = Task::new(async move {
                    if nb {
                        let mut t = if use_pool_level { p.timeouts() } else { Timeouts::new() };
                        t.wait = Some(std::time::Duration::ZERO);
                        p.timeout_get(&t).await
                    } else if use_pool_level {
                        p.get().await
                    } else {
                        p.timeout_get(&Timeouts::new()).await
                    }
                });
                let mut t = STask { who, gi, task };
                if !poll_task(&mut t) {
                    if nb && w(|w| w.gets[gi].in_env.is_none()) {
                        w(|w| {
                            let b = w.blame();
                            w.violate(&b, "nonblocking-get-pending", "a zero-wait get() returned Pending while waiting for a slot".to_string());
                        });
                    }
                    tasks.push(t);
                }
            }
            SOp::Poll(who) => {
                let i = tasks.iter().position(|t| t.who == who).unwrap();
                if poll_task(&mut tasks[i]) {
                    tasks.remove(i);
                }
            }
            SOp::Fire(g) => sched::fire_gate(g),
            SOp::Cancel(who) => {
                let i = tasks.iter().position(|t| t.who == who).unwrap();
                let mut t = tasks.remove(i);
                trace!("  caller {} abandons its get()", who);
                guarded_as(who, || t.task.cancel());
                w(|w| {
                    w.get_cancelled(t.gi);
                    w.end_op(who);
                });
            }
            SOp::Release(who) => guarded_as(who, || {
                op_release(who);
            }),
            SOp::Take(who) => guarded_as(who, || {
                op_take(who, Some(&pool));
            }),
            SOp::Retain => guarded_as(900, || op_retain(900, &pool)),
            SOp::Resize(n) => {
                guarded_as(900, || op_resize(900, &pool, n));
                let st = pool.status();
                let granted = tasks.iter().filter(|t| t.task.woken() && w(|w| w.gets[t.gi].in_env.is_none())).count();
                w(|w| {
                    if !w.close_returned && st.max_size != n {
                        w.violate(&["C07"], "max-size-after-resize", format!("status().max_size is {} right after resize({}) returned", st.max_size, n));
                    }
                    // idle objects reserved for callers that were already
                    // granted their slot are not "in excess"
                    let idle = w.idle().saturating_sub(granted);
                    if !w.close_returned && idle > n {
                        w.violate(&["C07"], "idle-over-limit", format!("{} idle objects remain right after resize({}) returned", idle, n));
                    }
                });
            }
            SOp::Close => {
                closed = true;
                closes += 1;
                guarded_as(900, || op_close(900, &pool));
                if !pool.is_closed() {
                    w(|w| w.violate(&["C06"], "is-closed-false", "is_closed() is false after close() returned".to_string()));
                }
            }
        }
        if closed && !pool.is_closed() {
            w(|w| w.violate(&["C06"], "is-closed-false", "is_closed() became false again".to_string()));
        }
        // every oracle of this step gets its say (a violation found by one of
        // them must not hide what another property's oracle would report); the
        // history stops after the step
        after_step(&pool, &tasks);
        if w(|w| w.own_clean()) {
            note_state(fingerprint(&pool, &tasks));
        }
        if fresh_step {
            // one step past the frontier state: report the state reached and end
            if w(|w| w.own_clean()) {
                let _new = explorer::bfs_visit(canon(&pool, &tasks, closes));
                pruned = true;
            }
            break;
        }
        if let Some(visited) = &sc.reach {
            // replays (tracing on) are never pruned, so violations reproduce
            // states along the replayed prefix are re-visits by construction
            if w(|w| w.own_clean()) && !explorer::tracing() && explorer::past_prefix() {
                let key = canon(&pool, &tasks, closes);
                let mut v = visited.lock().unwrap();
                match v.get(&key) {
                    Some(d) if (*d as usize) <= steps => {
                        pruned = true;
                    }
                    _ => {
                        v.insert(key, steps as u16);
                    }
                }
            }
            if pruned {
                break;
            }
        }
    }
    if sc.reach.is_some() && !pruned && steps >= sc.depth && w(|w| w.own_clean()) {
        explorer::flag_cap("reachability horizon reached before the history met a known state: closure not established");
    }
    if pruned {
        // somebody else expands this state: clean up without judging anything
        for mut t in tasks.drain(..) {
            let who = t.who;
            guarded_as(who, || t.task.cancel());
            w(|w| w.end_op(who));
        }
        let whos: Vec<usize> = w(|w| w.hands.keys().copied().collect());
        for who in whos {
            loop {
                let mut more = false;
                guarded_as(who, || more = op_release(who));
                if !more {
                    break;
                }
            }
        }
        w(|w| w.viol.clear());
        drop_handle(0, pool);
        let mut world = drop_world().unwrap();
        let keep = std::mem::take(&mut world.keep);
        let hands = std::mem::take(&mut world.hands);
        drop(world);
        drop(hands);
        drop(keep);
        set_lock_probe(None);
        sched::end();
        return Outcome { obs: 0, violations: vec![] };
    }
    // end of history: abandon what is pending, return everything, probe
    if w(|w| w.own_clean()) {
        for mut t in tasks.drain(..) {
            let who = t.who;
            guarded_as(who, || t.task.cancel());
            w(|w| {
                w.get_cancelled(t.gi);
                w.end_op(who);
            });
        }
        let whos: Vec<usize> = w(|w| w.hands.keys().copied().collect());
        for who in whos {
            loop {
                let mut more = false;
                guarded_as(who, || more = op_release(who));
                if !more {
                    break;
                }
            }
        }
        if w(|w| w.own_clean()) {
            after_step(&pool, &[]);
        }
        if w(|w| w.own_clean()) {
            probe(&pool);
        }
    }
    {
        // whatever the clean-up of an already failed history triggers is not reported
        let saved = w(|w| w.viol.clone());
        let failed = !saved.is_empty();
        tasks.clear();
        if failed {
            w(|w| w.viol = saved);
        }
    }
    let obs = w(|w| {
        let mut h = std::collections::hash_map::DefaultHasher::new();
        for g in &w.gets {
            (g.who, &g.outcome).hash(&mut h);
        }
        for o in &w.objs {
            (o.loc, o.handouts, o.detach, o.destroyed_in).hash(&mut h);
        }
        h.finish()
    });
    set_lock_probe(None);
    if w(|w| w.own_clean()) {
        drop_handle(0, pool);
        w(|w| w.final_ledger(true));
    } else {
        let saved = w(|w| w.viol.clone());
        drop_handle(0, pool);
        w(|w| w.viol = saved);
    }
    let mut world = drop_world().unwrap();
    let keep = std::mem::take(&mut world.keep);
    let hands = std::mem::take(&mut world.hands);
    let mut violations: Vec<Violation> = std::mem::take(&mut world.viol);
    drop(world);
    drop(hands);
    drop(keep);
    if let Some(m) = sched::machinery_error() {
        violations.push(Violation {
            property: "MACHINERY".into(),
            key: "machinery".into(),
            msg: m,
        });
    }
    sched::end();
    Outcome { obs, violations }
}
