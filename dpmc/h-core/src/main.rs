//! dpmc-core: checks C01–C09, C11–C13 (managed and unmanaged pool core).
mod conc;
mod seq;
mod tworld;
mod uworld;
mod mworld;
mod scenarios;

use dpmc::report::{parse_args, run_check};

fn main() {
    let args = parse_args();
    let spec = scenarios::spec_for(args.spec.as_deref().unwrap_or(&args.property), args.tier);
    match spec {
        Some(mut s) => {
            s.property = args.property.clone();
            run_check(&args, s)
        }
        None => {
            eprintln!("unknown property {}", args.property);
            std::process::exit(2);
        }
    }
}
