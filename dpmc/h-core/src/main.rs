//! dpmc-core: checks C01–C09, C11–C13 (managed and unmanaged pool core).
mod conc;
mod mworld;
mod scenarios;

use dpmc::report::{parse_args, run_check};

fn main() {
    let args = parse_args();
    let spec = scenarios::spec_for(&args.property, args.tier);
    match spec {
        Some(s) => run_check(&args, s),
        None => {
            eprintln!("unknown property {}", args.property);
            std::process::exit(2);
        }
    }
}
