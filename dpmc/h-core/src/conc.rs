//! H-conc: 2–4 scripted actors on the real managed pool; the explorer chooses
//! the schedule, the environment answers and the cancellations.

use std::hash::{Hash, Hasher};
use std::panic::{catch_unwind, AssertUnwindSafe};

use deadpool::managed::{Object, Pool, PoolError, TimeoutType, Timeouts};
use deadpool::Status;
use dpmc::explorer::{self, note_state, Outcome, Violation};
use dpmc::sched::{self, ActorStatus, RunCfg, Task, Verdict};
use dpmc::trace;

use crate::mworld::*;

#[derive(Clone, Debug, PartialEq, Eq)]
pub enum Op {
    Get { nb: bool, cancel: bool },
    Release,
    Take,
    Retain,
    Resize(usize),
    Close,
    Status,
    DropPool,
}

#[derive(Clone, Debug)]
pub struct ConcScenario {
    pub cfg: PoolCfg,
    pub actors: Vec<Vec<Op>>,
    pub base: Vec<&'static str>,
    /// Idle objects created (and returned) before the actors start.
    pub prefill: usize,
    /// Recycle each prefilled object this many extra times (non-initial metrics).
    pub prefill_cycles: usize,
    /// The controller drops its own handle before the actors start.
    pub drop_controller_handle: bool,
    pub cancels: bool,
    /// Switching between actors at operation boundaries is free.
    pub free_boundaries: bool,
    /// Operations performed (atomically, all answers ok) before the actors
    /// start, so that races are explored from non-initial states.
    pub pre: Vec<Pre>,
}

#[derive(Clone, Debug, PartialEq, Eq)]
pub enum Pre {
    /// Actor `i` (0-based) starts out holding one more object.
    Hold(usize),
    Resize(usize),
}

impl ConcScenario {
    pub fn new(cfg: PoolCfg, actors: Vec<Vec<Op>>, base: &[&'static str]) -> Self {
        ConcScenario {
            cfg,
            actors,
            base: base.to_vec(),
            prefill: 0,
            prefill_cycles: 0,
            drop_controller_handle: false,
            cancels: true,
            free_boundaries: true,
            pre: Vec::new(),
        }
    }
}

fn nb_timeouts() -> Timeouts {
    Timeouts {
        wait: Some(std::time::Duration::ZERO),
        create: None,
        recycle: None,
    }
}

fn exec_op(pool: &mut Option<Pool<Mgr>>, op: &Op, me: usize) {
    match op {
        Op::Get { nb, cancel } => {
            let Some(p) = pool.as_ref() else { return };
            let gi = w(|w| w.begin_get(me, *nb));
            trace!("  caller {} get({})", me, if *nb { "non-blocking" } else { "blocking" });
            let t = if *nb { nb_timeouts() } else { Timeouts::new() };
            let r = catch_unwind(AssertUnwindSafe(|| sched::block_on(p.timeout_get(&t), *cancel)));
            match r {
                Ok(Ok(r)) => finish_get(me, gi, r),
                Ok(Err(_cancelled)) => {
                    trace!("  caller {} get abandoned", me);
                    w(|w| {
                        w.get_cancelled(gi);
                        w.end_op(me);
                    })
                }
                Err(p) => {
                    let m = dpmc::explorer::panic_msg(&p);
                    trace!("  caller {} get panicked: {}", me, m);
                    w(|w| {
                        w.get_panicked(gi, &m);
                        w.end_op(me);
                    })
                }
            }
        }
        Op::Release => guarded(me, "release", || {
            op_release(me);
        }),
        Op::Take => guarded(me, "take", || {
            op_take(me, pool.as_ref());
        }),
        Op::Retain => {
            if let Some(p) = pool.as_ref() {
                guarded(me, "retain", || op_retain(me, p))
            }
        }
        Op::Resize(n) => {
            if let Some(p) = pool.as_ref() {
                guarded(me, "resize", || op_resize(me, p, *n))
            }
        }
        Op::Close => {
            if let Some(p) = pool.as_ref() {
                guarded(me, "close", || op_close(me, p))
            }
        }
        Op::Status => {
            if let Some(p) = pool.as_ref() {
                guarded(me, "status", || {
                    w(|w| w.begin_op(me, OpKind::Status));
                    let st = p.status();
                    w(|w| {
                        check_plausible(w, &st, "status() called by an actor");
                        w.end_op(me);
                    });
                })
            }
        }
        Op::DropPool => {
            if let Some(p) = pool.take() {
                guarded(me, "drop-pool-handle", || drop_handle(me, p))
            }
        }
    }
}

pub fn drop_handle(me: usize, p: Pool<Mgr>) {
    w(|w| w.begin_op(me, OpKind::DropPool));
    drop(p);
    w(|w| {
        w.handles -= 1;
        w.end_op(me);
    });
}

fn guarded(me: usize, what: &str, f: impl FnOnce()) {
    if let Err(p) = catch_unwind(AssertUnwindSafe(f)) {
        let m = dpmc::explorer::panic_msg(&p);
        w(|w| {
            let mut props = w.blame();
            if props.is_empty() {
                props.push("C02");
            }
            w.violate(&props, &format!("panic-in-{}", what), format!("{} panicked: {}", what, m));
            w.end_op(me);
        });
    }
}

/// In-flight plausibility of status() (C11).
pub fn check_plausible(w: &mut World, st: &Status, at: &str) {
    let generous = w.objs.iter().filter(|o| o.alive && matches!(o.loc, Loc::Pool | Loc::Held(_))).count()
        + w.creating as usize
        + w.ops.values().filter(|o| o.0 == OpKind::Take).count();
    let in_get = w.ops.values().filter(|o| o.0 == OpKind::Get).count();
    if st.size > generous {
        w.violate(&["C11"], "size-exceeds-existing", format!("{}: status().size {} but only {} objects exist or are being created", at, st.size, generous));
    }
    if st.available > st.size {
        w.violate(&["C11"], "available-exceeds-size", format!("{}: status().available {} > size {}", at, st.available, st.size));
    }
    if st.waiting > in_get {
        w.violate(&["C11"], "waiting-exceeds-callers", format!("{}: status().waiting {} but only {} callers are inside get()", at, st.waiting, in_get));
    }
    if st.size > (1 << 32) || st.available > (1 << 32) || st.waiting > (1 << 32) || st.max_size > (1 << 32) {
        w.violate(&["C11"], "counter-wrapped", format!("{}: status() = {:?}", at, st));
    }
    if w.stable_limit() && st.size > st.max_size {
        w.violate(&["C11"], "size-over-max-without-shrink", format!("{}: status().size {} > max_size {} although the pool was never resized", at, st.size, st.max_size));
    }
}

/// Exactness of status() at rest (C11). `waiters` = callers blocked in get().
pub fn check_exact(w: &mut World, st: &Status, waiters: usize, at: &str) {
    let exp_max: Vec<usize> = if w.close_returned {
        vec![0]
    } else {
        let mut v = vec![w.limit];
        if let Some(a) = w.limit_alt {
            v.push(a);
        }
        v
    };
    if !exp_max.contains(&st.max_size) {
        if w.close_returned {
            w.violate(&["C06", "C11"], "max-size-after-close", format!("{}: status().max_size is {} on a closed pool", at, st.max_size));
        } else if w.resizes_begun > 0 {
            w.violate(&["C07", "C11"], "max-size-after-resize", format!("{}: status().max_size is {}, last resize target {:?}", at, st.max_size, exp_max));
        } else {
            w.violate(&["C11"], "max-size", format!("{}: status().max_size is {}, configured {:?}", at, st.max_size, exp_max));
        }
    }
    let size = w.live();
    let idle = w.idle();
    // the first exact check after an abandoned get() also decides C03
    // ("status() again reports the earlier figures")
    let mut props: Vec<&'static str> = if w.abandon_mark { vec!["C11", "C03"] } else { vec!["C11"] };
    // "close() ... leaves nothing behind": the books of a closed pool at rest
    if w.close_returned {
        props.push("C06");
    }
    if st.size != size {
        w.violate(&props, "size-at-rest", format!("{}: status().size {} but {} objects exist (idle {} + checked out {})", at, st.size, size, idle, w.held()));
    }
    if st.available != idle {
        w.violate(&props, "available-at-rest", format!("{}: status().available {} but {} objects are idle", at, st.available, idle));
    }
    if st.waiting != waiters {
        w.violate(&props, "waiting-at-rest", format!("{}: status().waiting {} but {} callers are blocked in get()", at, st.waiting, waiters));
    }
    w.abandon_mark = false;
    if w.close_returned && idle > 0 {
        w.violate(&["C06"], "idle-object-in-closed-pool", format!("{}: closed pool still owns {} idle objects", at, idle));
    }
    if !w.close_begun && w.resizes_begun > 0 && w.resizes_begun == w.resize_epoch {
        let lim = w.limit.max(w.limit_alt.unwrap_or(0));
        if idle > lim {
            w.violate(&["C07"], "idle-over-limit", format!("{}: {} idle objects after resize({})", at, idle, w.limit));
        }
    }
}

fn fingerprint(pool: &Pool<Mgr>) -> u64 {
    let mut h = std::collections::hash_map::DefaultHasher::new();
    pool.verif_snapshot().hash(&mut h);
    w(|w| {
        for o in &w.objs {
            (o.alive, o.loc, o.in_flight, o.rejected, o.handouts, o.detach).hash(&mut h);
        }
        w.creating.hash(&mut h);
        (w.limit, w.close_begun, w.close_returned, w.resizes_begun, w.resize_epoch).hash(&mut h);
        for g in &w.gets {
            (g.in_env, &g.outcome).hash(&mut h);
        }
    });
    sched::sched_fingerprint().hash(&mut h);
    h.finish()
}

/// Callers parked in get() waiting for a slot (not inside a manager call).
fn slot_waiters(n_actors: usize) -> Option<Vec<usize>> {
    // None when some operation is in progress (not at rest)
    let mut waiters = Vec::new();
    for a in 0..n_actors {
        let me = a + 1;
        let op = w(|w| w.ops.get(&me).cloned());
        match sched::actor_status(a) {
            ActorStatus::Finished | ActorStatus::Boundary => {
                if op.is_some() {
                    return None;
                }
            }
            ActorStatus::ParkedIdle => match op {
                Some((OpKind::Get, Some(gi))) => {
                    if w(|w| w.gets[gi].in_env.is_some()) {
                        return None;
                    }
                    waiters.push(me);
                }
                _ => return None,
            },
            _ => return None,
        }
    }
    Some(waiters)
}

pub fn run_conc(sc: &ConcScenario) -> Outcome {
    sched::begin();
    sched::set_free_boundaries(sc.free_boundaries);
    init_world(sc.cfg.clone(), &sc.base);
    let pool = build_pool();
    let (slots_id, _, _) = pool.verif_ids();
    w(|w| w.handles = 2);
    // non-initial start state
    if sc.prefill > 0 {
        w(|w| {
            w.forced_ok = true;
            w.seq_actor = Some(PROBE);
        });
        for _ in 0..=sc.prefill_cycles {
            for _ in 0..sc.prefill {
                let gi = w(|w| w.begin_get(PROBE, true));
                let p = pool.clone();
                let mut t = Task::new(async move { p.timeout_get(&nb_timeouts()).await });
                match t.poll() {
                    Some(r) => finish_get(PROBE, gi, r),
                    None => panic!("prefill get pending"),
                }
            }
            while op_release(PROBE) {}
            // returned in reverse order of acquisition
        }
        w(|w| {
            w.forced_ok = false;
            w.seq_actor = None;
        });
    }
    if !sc.pre.is_empty() {
        w(|w| {
            w.forced_ok = true;
            w.seq_actor = Some(PROBE);
        });
        for p in &sc.pre {
            match p {
                Pre::Hold(a) => {
                    let gi = w(|w| w.begin_get(PROBE, true));
                    let pl = pool.clone();
                    let mut t = Task::new(async move { pl.timeout_get(&nb_timeouts()).await });
                    match t.poll() {
                        Some(r) => finish_get(PROBE, gi, r),
                        None => panic!("pre-history get pending"),
                    }
                    // hand the object over to the actor
                    let who = a + 1;
                    w(|w| {
                        if let Some(o) = w.hands.get_mut(&PROBE).and_then(|v| v.pop()) {
                            let id = o.id;
                            w.objs[id].loc = Loc::Held(who);
                            w.hands.entry(who).or_default().push(o);
                        }
                    });
                }
                Pre::Resize(n) => {
                    w(|w| w.seq_actor = Some(900));
                    op_resize(900, &pool, *n);
                    w(|w| w.seq_actor = Some(PROBE));
                }
            }
        }
        w(|w| {
            w.forced_ok = false;
            w.seq_actor = None;
        });
    }
    let n_actors = sc.actors.len();
    let mut ctl_pool = Some(pool.clone());
    for (i, script) in sc.actors.iter().enumerate() {
        let script = script.clone();
        let p = pool.clone();
        w(|w| w.handles += 1);
        sched::spawn(&format!("A{}", i + 1), move || {
            let me = i + 1;
            let mut pool = Some(p);
            for op in &script {
                if sched::winding_down() {
                    break;
                }
                sched::boundary();
                if sched::winding_down() {
                    break;
                }
                exec_op(&mut pool, op, me);
            }
            if let Some(p) = pool.take() {
                if !sched::winding_down() {
                    sched::boundary();
                }
                drop_handle(me, p);
            }
        });
    }
    drop_handle(0, pool);
    if sc.drop_controller_handle {
        drop_handle(0, ctl_pool.take().unwrap());
    }
    let obs_pool = ctl_pool.clone();
    let obs_pool_ref = obs_pool.as_ref();
    let verdict = sched::run(
        &RunCfg {
            horizon: 5000,
            cancels: sc.cancels,
        },
        || {
            if sched::machinery_error().is_some() {
                return false;
            }
            if let Some(p) = obs_pool_ref {
                if !sched::mutex_held(slots_id) {
                    let st = sched::atomically(|| p.status());
                    let waiters = slot_waiters(n_actors);
                    w(|w| {
                        check_plausible(w, &st, "between steps");
                        if let Some(ws) = &waiters {
                            if w.ops.values().all(|o| o.0 == OpKind::Get) {
                                check_exact(w, &st, ws.len(), "at rest");
                            }
                        }
                    });
                    note_state(fingerprint(p));
                }
            }
            // a violation of a property this scenario was not built for does not
            // end the execution (see World::own_clean)
            w(|w| w.own_clean())
        },
    );
    drop(obs_pool);
    trace!("verdict: {:?}", verdict);
    let mut machinery = sched::machinery_error();
    match &verdict {
        Verdict::Done | Verdict::Quiescent(_) => {
            // quiescence oracle: every parked getter must be justified
            for a in 0..n_actors {
                let me = a + 1;
                if sched::actor_finished(a) {
                    continue;
                }
                let op = w(|w| w.ops.get(&me).cloned());
                match op {
                    Some((OpKind::Get, Some(gi))) => {
                        let in_env = w(|w| w.gets[gi].in_env);
                        if in_env.is_some() {
                            continue;
                        }
                        w(|w| {
                            if w.close_returned {
                                w.violate(&["C06", "C02"], "waiter-stranded-after-close", format!("caller {} is still blocked in get() after close() returned", me));
                            } else {
                                let in_env_gets = w.gets.iter().filter(|g| g.outcome.is_none() && g.in_env.is_some()).count();
                                let in_use = w.held() + in_env_gets;
                                let lim = w.limit.min(w.limit_alt.unwrap_or(usize::MAX));
                                if in_use < lim {
                                    let b = w.blame();
                                    w.violate(&b, "waiter-stranded", format!("caller {} is blocked in get() although only {} of {} slots are in use", me, in_use, lim));
                                }
                            }
                        });
                    }
                    other => {
                        machinery = Some(format!("actor {} parked outside get(): {:?}", me, other));
                    }
                }
            }
        }
        Verdict::Deadlock(d) => w(|w| {
            let b = w.blame();
            let mut props = b;
            if !props.contains(&"C02") && w.stable_limit() {
                props.push("C02");
            }
            w.violate(&props, "deadlock", format!("deadlock: {}", d));
        }),
        Verdict::Horizon => w(|w| {
            let b = w.blame();
            w.violate(&b, "livelock", "step horizon exceeded (some call never completes)".to_string());
        }),
        Verdict::Stopped => {}
    }
    let deadlocked = matches!(verdict, Verdict::Deadlock(_) | Verdict::Horizon);
    let cascade = !w(|w| w.own_clean()) || machinery.is_some();
    if !deadlocked {
        // finish every actor so that its coroutine stack can be reused; what
        // happens during this after a violation is not reported
        let saved = w(|w| w.viol.clone());
        let ok = sched::wind_down();
        if cascade {
            w(|w| w.viol = saved);
        } else {
            if !ok {
                machinery = Some("wind-down could not finish every actor".to_string());
            }
            if machinery.is_none() {
                machinery = sched::machinery_error();
            }
        }
    }
    if !deadlocked && machinery.is_none() && w(|w| w.own_clean()) {
        // return everything that is still checked out
        let whos: Vec<usize> = w(|w| w.hands.keys().copied().collect());
        for who in whos {
            w(|w| w.seq_actor = Some(who));
            while op_release(who) {}
            w(|w| w.seq_actor = None);
        }
        if let Some(p) = ctl_pool.as_ref() {
            let st = p.status();
            w(|w| {
                check_plausible(w, &st, "after wind-down");
                check_exact(w, &st, 0, "after everything was returned");
            });
            if w(|w| w.own_clean()) {
                probe(p);
            }
        }
        if let Some(p) = ctl_pool.take() {
            drop_handle(0, p);
        }
        w(|w| w.final_ledger(true));
    }
    // observation tuple
    let obs = w(|w| {
        let mut h = std::collections::hash_map::DefaultHasher::new();
        for g in &w.gets {
            (g.who, &g.outcome).hash(&mut h);
        }
        for o in &w.objs {
            (o.loc, o.handouts, o.detach, o.destroyed_in).hash(&mut h);
        }
        std::mem::discriminant(&verdict).hash(&mut h);
        h.finish()
    });
    let mut world = drop_world().unwrap();
    let keep = std::mem::take(&mut world.keep);
    let hands = std::mem::take(&mut world.hands);
    let mut violations = std::mem::take(&mut world.viol);
    drop(world);
    // objects handed to the caller are dropped outside any world
    drop(hands);
    drop(keep);
    if let Some(m) = machinery {
        violations.push(Violation {
            property: "MACHINERY".into(),
            key: "machinery".into(),
            msg: m,
        });
    }
    sched::end();
    Outcome { obs, violations }
}

/// Polls a probe `get()`; a panic inside it is a finding (`panic-in-get`),
/// not a harness failure.  `Err(())` = panicked (already recorded).
fn probe_poll(t: &mut Task<Result<Object<Mgr>, PoolError<MErr>>>, gi: usize) -> Result<Option<Result<Object<Mgr>, PoolError<MErr>>>, ()> {
    match std::panic::catch_unwind(std::panic::AssertUnwindSafe(|| t.poll())) {
        Ok(r) => Ok(r),
        Err(p) => {
            let m = explorer::panic_msg(&p);
            trace!("  probe get panicked: {}", m);
            t.cancel();
            w(|w| {
                w.get_panicked(gi, &m);
                w.end_op(PROBE);
            });
            Err(())
        }
    }
}


/// End-of-history capacity probe through the public API only.
pub fn probe(pool: &Pool<Mgr>) {
    w(|w| {
        w.forced_ok = true;
        w.seq_actor = Some(PROBE);
    });
    trace!("probe");
    let (closed, lims) = w(|w| {
        let mut v = vec![w.limit];
        if let Some(a) = w.limit_alt {
            v.push(a);
        }
        (w.close_returned, v)
    });
    let max_try = lims.iter().copied().max().unwrap_or(0) + 2;
    let mut n_ok = 0usize;
    let mut last_err: Option<String> = None;
    for _ in 0..max_try {
        let gi = w(|w| w.begin_get(PROBE, true));
        let p = pool.clone();
        let mut t = Task::new(async move { p.timeout_get(&nb_timeouts()).await });
        let Ok(polled) = probe_poll(&mut t, gi) else { break };
        match polled {
            None => {
                t.cancel();
                w(|w| {
                    w.get_cancelled(gi);
                    w.abandoned -= 1;
                    w.abandon_mark = false;
                    w.end_op(PROBE);
                    let b = w.blame();
                    w.violate(&b, "nonblocking-get-pending", "a zero-wait get() returned Pending".to_string());
                });
                break;
            }
            Some(Ok(o)) => {
                n_ok += 1;
                finish_get(PROBE, gi, Ok(o));
            }
            Some(Err(e)) => {
                last_err = Some(match &e {
                    PoolError::Timeout(TimeoutType::Wait) => "Timeout(Wait)".to_string(),
                    PoolError::Closed => "Closed".to_string(),
                    other => format!("{:?}", other),
                });
                finish_get(PROBE, gi, Err(e));
                break;
            }
        }
    }
    w(|w| {
        if closed {
            if n_ok != 0 || last_err.as_deref() != Some("Closed") {
                w.violate(&["C06"], "get-on-closed-pool", format!("closed pool: {} non-blocking gets succeeded, then {:?}", n_ok, last_err));
            }
        } else if !lims.contains(&n_ok) {
            let b = w.blame();
            let key = if n_ok < lims[0] { "capacity-lost" } else { "capacity-exceeded" };
            w.violate(&b, key, format!("after everything was returned {} objects could be obtained concurrently (then {:?}); capacity should be {:?}", n_ok, last_err, lims));
        } else if last_err.as_deref() != Some("Timeout(Wait)") {
            let b = w.blame();
            w.violate(&b, "probe-wrong-error", format!("the get beyond capacity returned {:?} instead of Timeout(Wait)", last_err));
        }
    });
    while op_release(PROBE) {}
    if !closed && w(|w| w.viol.is_empty()) {
        let gi = w(|w| w.begin_get(PROBE, false));
        let p = pool.clone();
        let mut t = Task::new(async move { p.get().await });
        let expect_obj = lims.iter().any(|l| *l > 0);
        match probe_poll(&mut t, gi).unwrap_or(None) {
            Some(r) => {
                let ok = r.is_ok();
                finish_get(PROBE, gi, r);
                if !ok || !expect_obj {
                    w(|w| {
                        let b = w.blame();
                        w.violate(&b, "blocking-probe", format!("blocking get() at full capacity {:?} completed with ok={}", lims, ok));
                    });
                }
            }
            None => {
                t.cancel();
                w(|w| {
                    w.get_cancelled(gi);
                    w.abandoned -= 1;
                    w.abandon_mark = false;
                    w.end_op(PROBE);
                    if !lims.contains(&0) {
                        let b = w.blame();
                        w.violate(&b, "blocking-get-stuck", format!("blocking get() on an idle pool with capacity {:?} did not complete", lims));
                    }
                });
            }
        }
        while op_release(PROBE) {}
    }
    w(|w| {
        w.forced_ok = false;
        w.seq_actor = None;
    });
}
