//! Scenario lists per property and tier (managed pool).
use dpmc::report::{CheckSpec, Scenario, Tier};
use serde_json::json;

use crate::conc::{run_conc, ConcScenario, Op, Pre};
use crate::mworld::{HookCfg, Out, PoolCfg};
use crate::seq::{run_seq, SeqScenario};
use crate::uworld::{run_uconc, run_useq, UBuild, UOp, UScenario, USeqScenario};

fn get() -> Op {
    Op::Get { nb: false, cancel: true }
}
fn get_nb() -> Op {
    Op::Get { nb: true, cancel: false }
}

fn conc(name: &str, about: &str, p: u32, f: u32, sc: ConcScenario) -> Scenario {
    Scenario::new(name, about, p, f, move || run_conc(&sc))
}

/// Same, but switching actors at operation boundaries costs a preemption
/// (keeps 3-actor scenarios small enough for the quick tier).
fn conc_paid(name: &str, about: &str, p: u32, f: u32, mut sc: ConcScenario) -> Scenario {
    sc.free_boundaries = false;
    let about = format!("{} [switches at operation boundaries count as preemptions]", about);
    Scenario::new(name, &about, p, f, move || run_conc(&sc))
}

fn seq(name: &str, about: &str, f: u32, sc: SeqScenario) -> Scenario {
    Scenario::new(name, about, 0, f, move || run_seq(&sc))
}

const FAULTY: &[Out] = &[Out::Ok, Out::Err, Out::PendOk, Out::PendErr, Out::Never, Out::Panic];
const ERRS: &[Out] = &[Out::Ok, Out::Err, Out::PendOk, Out::PendErr];
const SUSPENDING: &[Out] = &[Out::PendOk, Out::Ok, Out::PendErr, Out::Panic];
const SYNC_MENU: &[Out] = &[Out::Ok, Out::Err, Out::Panic];

fn faulty_cfg(ms: usize) -> PoolCfg {
    let mut c = PoolCfg::simple(ms);
    c.create_menu = FAULTY.to_vec();
    c.recycle_menu = FAULTY.to_vec();
    c
}

fn hook(asynchronous: bool, menu: &[Out]) -> HookCfg {
    let menu: Vec<Out> = if asynchronous {
        menu.to_vec()
    } else {
        let mut m: Vec<Out> = menu.iter().copied().filter(|o| matches!(o, Out::Ok | Out::Err | Out::Panic)).collect();
        if m.is_empty() || m[0] != Out::Ok {
            m.insert(0, Out::Ok);
            m.dedup();
        }
        m
    };
    HookCfg { asynchronous, menu }
}

/// Hook layouts (5 = two sync, 6 = two async per kind): 0 = none, 1 = one sync per kind, 2 = one async per kind,
/// 3 = (sync, async) per kind, 4 = (async, sync) per kind.
fn with_hooks(mut c: PoolCfg, layout: u8, menu: &[Out]) -> PoolCfg {
    let v = match layout {
        0 => vec![],
        1 => vec![hook(false, menu)],
        2 => vec![hook(true, menu)],
        3 => vec![hook(false, menu), hook(true, menu)],
        4 => vec![hook(true, menu), hook(false, menu)],
        5 => vec![hook(false, menu), hook(false, menu)],
        _ => vec![hook(true, menu), hook(true, menu)],
    };
    c.pre_recycle = v.clone();
    c.post_recycle = v.clone();
    c.post_create = v;
    c
}

struct B {
    p: u32,
    f: u32,
    thorough: bool,
}

fn bounds(tier: Tier) -> B {
    match tier {
        Tier::Quick => B { p: 3, f: 1, thorough: false },
        Tier::Thorough => B { p: 4, f: 2, thorough: true },
    }
}

// ---------------------------------------------------------------- generated families (thorough tier)

fn multisets(k: usize, n: usize) -> Vec<Vec<usize>> {
    // all non-decreasing index sequences of length n over 0..k
    fn rec(k: usize, n: usize, start: usize, cur: &mut Vec<usize>, out: &mut Vec<Vec<usize>>) {
        if cur.len() == n {
            out.push(cur.clone());
            return;
        }
        for i in start..k {
            cur.push(i);
            rec(k, n, i, cur, out);
            cur.pop();
        }
    }
    let mut out = Vec::new();
    rec(k, n, 0, &mut Vec::new(), &mut out);
    out
}

fn base_scripts() -> Vec<(&'static str, Vec<Op>)> {
    vec![
        ("GR", vec![get(), Op::Release]),
        ("GT", vec![get(), Op::Take]),
        ("NR", vec![get_nb(), Op::Release]),
        ("RT", vec![Op::Retain]),
        ("ST", vec![Op::Status]),
        ("GGRR", vec![get(), get_nb(), Op::Release, Op::Release]),
    ]
}

/// Every assignment (modulo actor renaming) of scripts from the alphabet to
/// `n` actors, optionally with one fixed extra actor, on a few pool shapes.
fn generated(base: &[&'static str], fixed: Option<(&'static str, Vec<Op>)>, n: usize, p: u32, f: u32, with_faults: bool) -> Vec<Scenario> {
    let scripts = base_scripts();
    let mut v = Vec::new();
    for combo in multisets(scripts.len(), n) {
        // skip assignments in which nobody ever takes an object out
        if combo.iter().all(|i| matches!(scripts[*i].0, "RT" | "ST")) {
            continue;
        }
        for (ms, prefill) in [(1usize, 0usize), (2, 1)] {
            let mut cfg = if with_faults { faulty_cfg(ms) } else { PoolCfg::simple(ms) };
            if !with_faults {
                cfg.create_menu = vec![Out::Ok, Out::PendOk, Out::Err];
            }
            let mut actors: Vec<Vec<Op>> = combo.iter().map(|i| scripts[*i].1.clone()).collect();
            let mut name = combo.iter().map(|i| scripts[*i].0).collect::<Vec<_>>().join("+");
            if let Some((fname, fs)) = &fixed {
                actors.push(fs.clone());
                name = format!("{}+{}", name, fname);
            }
            let mut sc = ConcScenario::new(cfg, actors, base);
            sc.prefill = prefill;
            v.push(conc_paid(&format!("gen/{}/ms{}", name, ms), "generated: every assignment of the script alphabet {get+return, get+take, nonblocking get+return, retain, status, two gets} to the actors (modulo renaming)", p, f, sc));
        }
    }
    v
}

// ---------------------------------------------------------------- C01 / C02

pub fn conc_core(tier: Tier, base: &[&'static str]) -> Vec<Scenario> {
    let b = bounds(tier);
    let (p, f) = (b.p, b.f);
    let mut v = Vec::new();
    for ms in [1usize, 2] {
        let mut sc = ConcScenario::new(faulty_cfg(ms), vec![vec![get(), Op::Release], vec![get(), Op::Release]], base);
        v.push(conc(&format!("return-vs-get/ms{}", ms), "A and B each get and return: the push -> unlock -> add_permits window of a return racing an acquire", p, f, sc.clone()));
        sc.prefill = ms;
        v.push(conc(&format!("reject-then-create/ms{}", ms), "idle objects may fail recycling while a second getter waits (the 0.9.5 bug)", p, f, sc));
    }
    let sc = ConcScenario::new(faulty_cfg(1), vec![vec![get(), Op::Take], vec![get(), Op::Release]], base);
    v.push(conc("take-vs-get/ms1", "A takes its object while B acquires", p, f, sc));
    let mut sc = ConcScenario::new(faulty_cfg(2), vec![vec![Op::Retain], vec![get(), Op::Release]], base);
    sc.prefill = 2;
    v.push(conc("retain-vs-get/ms2", "retain() removes idle objects while a getter runs", p, f, sc));
    let mut c = faulty_cfg(1);
    c.post_create = vec![hook(true, FAULTY)];
    let sc = ConcScenario::new(c, vec![vec![get(), Op::Release], vec![get(), Op::Release]], base);
    v.push(conc("post-create-fails/ms1", "post_create hook may fail, hang or panic with a waiter queued", p, f, sc));
    let sc = ConcScenario::new(PoolCfg::simple(0), vec![vec![get_nb()], vec![get()]], base);
    v.push(conc("max-size-zero", "max_size 0: nobody ever gets an object", p, f, sc));
    // three actors: two waiters, one return
    let mut c3 = PoolCfg::simple(1);
    c3.create_menu = vec![Out::Ok, Out::Err, Out::PendErr];
    let sc = ConcScenario::new(c3.clone(), vec![vec![get(), Op::Release], vec![get(), Op::Release], vec![get(), Op::Release]], base);
    if b.thorough {
        v.push(conc_paid("two-waiters-one-return/ms1", "three getters on one slot: every return must wake exactly the next waiter, a failing create must pass the slot on", 3, 2, sc));
    } else {
        v.push(conc_paid("two-waiters-one-return/ms1", "three getters on one slot: every return must wake exactly the next waiter, a failing create must pass the slot on", 2, 1, sc));
    }
    let sc = ConcScenario::new(c3, vec![vec![get(), Op::Take], vec![get(), Op::Release], vec![get_nb(), Op::Release]], base);
    if b.thorough {
        v.push(conc_paid("take-with-waiter/ms1", "take() with a waiter queued and a non-blocking getter racing", 3, 2, sc));
    } else {
        v.push(conc_paid("take-with-waiter/ms1", "take() with a waiter queued and a non-blocking getter racing", 2, 1, sc));
    }
    if b.thorough {
        let sc = ConcScenario::new(faulty_cfg(2), vec![vec![get(), Op::Release], vec![get(), Op::Take], vec![get(), Op::Release]], base);
        v.push(conc_paid("three-getters/ms2", "three getters on two slots with every fault", 3, 2, sc));
        let mut sc = ConcScenario::new(faulty_cfg(2), vec![vec![Op::Retain], vec![get(), Op::Release], vec![get_nb(), Op::Release]], base);
        sc.prefill = 2;
        v.push(conc_paid("retain-vs-two-getters/ms2", "retain() vs two getters", 3, 1, sc));
        let mut c = faulty_cfg(1);
        c.lifo = true;
        let mut sc = ConcScenario::new(c, vec![vec![get(), Op::Release, get(), Op::Release], vec![get(), Op::Release]], base);
        sc.prefill = 1;
        v.push(conc("lifo-two-rounds/ms1", "Lifo pool, one actor goes around twice", 2, 2, sc));
        v.extend(generated(base, None, 3, 2, 1, true));
        v.extend(generated(base, None, 2, 3, 2, true));
    }
    v
}

/// The Lifo queue mode under the core oracles: reachability to closure
/// (quick: the two smallest shapes) and one thread-level scenario.
pub fn lifo_scenarios(tier: Tier, base: &[&'static str]) -> Vec<Scenario> {
    let b = bounds(tier);
    let mut v: Vec<Scenario> = reach_scenarios_mode(tier, base, false, false, true).into_iter().filter(|s| b.thorough || s.name.contains("/ms1/tasks2/idle0/") || s.name.contains("/ms2/tasks2/idle1/")).collect();
    let mut c = faulty_cfg(1);
    c.lifo = true;
    let sc = ConcScenario::new(c, vec![vec![get(), Op::Release], vec![get(), Op::Release], vec![get(), Op::Release]], base);
    v.push(conc_paid("lifo/three-getters/ms1", "Lifo pool: three getters on one slot with every fault", 2, if b.thorough { 2 } else { 1 }, sc));
    v
}

pub fn seq_core(tier: Tier, base: &[&'static str]) -> Vec<Scenario> {
    let b = bounds(tier);
    let mut v = Vec::new();
    {
        let mut sc = SeqScenario::new(faulty_cfg(0), if b.thorough { 7 } else { 5 }, base);
        sc.max_tasks = 3;
        v.push(seq("histories/ms0", "a pool with max_size 0: every caller waits or times out, nothing is ever created", 2, sc));
    }
    for ms in [1usize, 2] {
        let mut sc = SeqScenario::new(faulty_cfg(ms), if b.thorough { 8 } else { 6 }, base);
        sc.max_tasks = if ms == 1 { 2 } else { 3 };
        sc.retain = true;
        sc.prefill = 0;
        v.push(seq(&format!("histories/ms{}", ms), "every history of gets (blocking / non-blocking), polls, gate completions, cancellations, returns, takes and retains", if b.thorough { 3 } else { 2 }, sc.clone()));
        sc.prefill = ms;
        v.push(seq(&format!("histories-prefilled/ms{}", ms), "same, starting from a pool full of idle objects (recycle paths)", if b.thorough { 3 } else { 2 }, sc));
    }
    // every step goes through the timeout wrappers, with the two idioms for
    // "practically never": one hour and Duration::MAX
    for max in [false, true] {
        let mut c = PoolCfg::simple(1);
        c.create_menu = ERRS.to_vec();
        c.recycle_menu = ERRS.to_vec();
        let mut sc = SeqScenario::new(c, if b.thorough { 7 } else { 5 }, base);
        sc.max_tasks = 2;
        sc.prefill = 1;
        sc.timeouts = true;
        sc.timeouts_max = max;
        sc.gets_nonblocking = false;
        v.push(seq(&format!("histories-with-timeouts/{}/ms1", if max { "max" } else { "hour" }), "pool built with wait/create/recycle timeouts that never fire (one hour, or Duration::MAX) and the tokio runtime on a paused clock: waiting, creating and recycling through the timeout wrappers", if b.thorough { 3 } else { 2 }, sc));
    }
    v
}

// ---------------------------------------------------------------- reachability (unbounded depth)

/// Histories explored to closure: a history is cut as soon as it reaches an
/// abstract state (see `seq::canon`) that was already reached at the same or a
/// smaller depth, so the exploration ends when no new state can be reached;
/// `horizon` is only a safety net and is reported as a cap if it is ever hit.
pub fn reach_scenarios(tier: Tier, base: &[&'static str], resize: bool, close: bool) -> Vec<Scenario> {
    reach_scenarios_mode(tier, base, resize, close, false)
}

pub fn reach_scenarios_mode(tier: Tier, base: &[&'static str], resize: bool, close: bool, lifo: bool) -> Vec<Scenario> {
    let b = bounds(tier);
    let mut v = Vec::new();
    // (max_size, concurrent gets, idle objects at the start, hook layout, rich menus)
    let shapes: Vec<(usize, usize, usize, u8, bool)> = if b.thorough {
        vec![(1, 2, 0, 0, true), (1, 3, 1, 0, true), (2, 2, 1, 0, true), (2, 3, 2, 0, true), (3, 3, 2, 0, false), (2, 3, 1, 2, false), (2, 2, 2, 3, true), (0, 2, 0, 0, true)]
    } else {
        vec![(1, 2, 0, 0, true), (2, 2, 1, 0, true), (2, 3, 2, 0, false), (1, 2, 1, 2, false), (0, 2, 0, 0, true), (3, 2, 3, 0, false)]
    };
    for (ms, tasks, prefill, layout, rich) in shapes {
        let mut c = PoolCfg::simple(ms);
        c.lifo = lifo;
        let menu: Vec<Out> = if rich { vec![Out::Ok, Out::Err, Out::PendOk, Out::PendErr, Out::Never, Out::Panic] } else { vec![Out::Ok, Out::Err, Out::PendOk] };
        c.create_menu = menu.clone();
        c.recycle_menu = menu.clone();
        c = with_hooks(c, layout, &[Out::Ok, Out::Err, Out::PendOk]);
        let mut sc = SeqScenario::new(c, 0, base);
        sc.max_tasks = tasks;
        sc.prefill = prefill.min(ms);
        sc.take = true;
        sc.retain = !resize && !close;
        sc.gets_nonblocking = true;
        sc.cancel = true;
        if resize {
            sc.resize_targets = if b.thorough { vec![0, 1, 2, 3] } else { vec![0, 1, 2] };
        }
        if close {
            sc.close = true;
            if !resize {
                sc.resize_targets = vec![0, 2];
            }
        }
        let sc = sc.breadth_first();
        let tag = format!("{}{}", if resize { "+resize" } else { "" }, if close { "+close" } else { "" });
        let mut s = seq(
            &format!("reach{}{}/ms{}/tasks{}/idle{}/hooks{}{}", tag, if lifo { "/lifo" } else { "" }, ms, tasks, prefill.min(ms), layout, if rich { "/rich" } else { "" }),
            "all reachable abstract states, breadth first to closure (unbounded history depth): from every state every operation, every environment answer (ok / error / delayed / never / panic where 'rich') and abandonment, plus the stop-and-probe branch; ends when a level finds no new state",
            0,
            sc,
        );
        s.bfs = true;
        v.push(s);
    }
    v
}

// ---------------------------------------------------------------- C03

pub fn c03_scenarios(tier: Tier) -> Vec<Scenario> {
    let b = bounds(tier);
    let base: &[&'static str] = &["C03"];
    let mut v = Vec::new();
    // every env call suspends by default, so each await point of get() is a
    // point where the call can be abandoned (cancel = 1 fault)
    for (name, prefill) in [("fresh", 0usize), ("idle", 1usize)] {
        let mut c = PoolCfg::simple(1);
        c.create_menu = SUSPENDING.to_vec();
        c.recycle_menu = SUSPENDING.to_vec();
        c = with_hooks(c, 2, SUSPENDING);
        let mut sc = ConcScenario::new(c, vec![vec![get(), Op::Release], vec![get(), Op::Release]], base);
        sc.prefill = prefill;
        v.push(conc_paid(&format!("abandon-every-await/{}/ms1", name), "two getters on one slot; every manager / hook call suspends, each suspension may be abandoned (dropped future or injected panic), including a waiter that was already granted the slot", 3, if b.thorough { 2 } else { 1 }, sc));
    }
    let mut c = PoolCfg::simple(2);
    c.create_menu = SUSPENDING.to_vec();
    c.recycle_menu = SUSPENDING.to_vec();
    c = with_hooks(c, 4, SUSPENDING);
    let mut sc = ConcScenario::new(c, vec![vec![get(), Op::Release], vec![get(), Op::Release]], base);
    sc.prefill = 2;
    v.push(conc_paid("abandon-with-two-hooks/ms2", "two hooks per kind (async, sync), two idle objects: abandonment after one or more rejected objects", if b.thorough { 3 } else { 2 }, if b.thorough { 2 } else { 1 }, sc));
    // abandonment by an enclosing deadline (tokio::time::timeout around get())
    {
        use crate::tworld::{run_enclosing, EnclosingScenario, PState};
        for state in [PState::Empty, PState::Idle, PState::Exhausted] {
            for hooks in [false, true] {
                let sc = EnclosingScenario { state, hooks, max_events: if b.thorough { 8 } else { 6 } };
                v.push(Scenario::new(
                    &format!("enclosing-deadline/{:?}/{}", state, if hooks { "hooks" } else { "plain" }),
                    "tokio::time::timeout(10ms, pool.get()) on a paused clock: every manager / hook call suspends, the explorer orders clock advances, completions and the holder's return; the outer deadline drops the call at whichever await point it is in",
                    0,
                    if b.thorough { 4 } else { 3 },
                    move || run_enclosing(&sc),
                ));
            }
        }
    }
    // sequential differential: every reachable state x every suspension point
    // hook layouts: async only, sync + async, none, sync only (a sync hook
    // cannot be dropped half-way, but it can panic)
    for (layout, ms, prefill) in [(2u8, 1usize, 1usize), (3, 2, 2), (0, 2, 1), (1, 2, 1)] {
        let mut c = PoolCfg::simple(ms);
        c.create_menu = SUSPENDING.to_vec();
        c.recycle_menu = SUSPENDING.to_vec();
        c = with_hooks(c, layout, SUSPENDING);
        let mut sc = SeqScenario::new(c, if b.thorough { 10 } else { 8 }, base);
        sc.max_tasks = 2;
        sc.prefill = prefill;
        sc.take = false;
        sc.gets_nonblocking = false;
        v.push(seq(&format!("abandon-histories/hooks{}/ms{}", layout, ms), "histories in which every manager / hook call suspends and any pending get() may be abandoned at that point", if b.thorough { 4 } else { 3 }, sc));
    }
    // the same through the runtime's timeout wrappers: pool built with wait /
    // create / recycle timeouts that never fire (tokio runtime, paused clock);
    // a call may be abandoned at every point at which the wrapper or the
    // wrapped step is suspended
    for (layout, max) in [(0u8, false), (2, true)] {
        let mut c = PoolCfg::simple(1);
        c.create_menu = SUSPENDING.to_vec();
        c.recycle_menu = SUSPENDING.to_vec();
        c = with_hooks(c, layout, SUSPENDING);
        let mut sc = SeqScenario::new(c, if b.thorough { 9 } else { 7 }, base);
        sc.max_tasks = 2;
        sc.prefill = 1;
        sc.take = false;
        sc.gets_nonblocking = false;
        sc.timeouts = true;
        sc.timeouts_max = max;
        v.push(seq(&format!("abandon-histories-with-timeouts/hooks{}/{}", layout, if max { "max" } else { "hour" }), "abandonment at every suspension point of calls that run through the timeout wrappers (timeouts of one hour / Duration::MAX never fire)", if b.thorough { 4 } else { 3 }, sc));
    }
    // pool states reached through resize(): permits owed after a shrink while
    // gets are waiting, creating or recycling - and are then abandoned
    for (ms, prefill, targets) in [(2usize, 1usize, vec![1usize, 2]), (1, 0, vec![0, 2])] {
        let mut c = PoolCfg::simple(ms);
        c.create_menu = vec![Out::Ok, Out::PendOk];
        c.recycle_menu = vec![Out::Ok, Out::PendOk];
        let mut sc = SeqScenario::new(c, if b.thorough { 10 } else { 8 }, base);
        sc.max_tasks = 2;
        sc.prefill = prefill;
        sc.take = false;
        sc.gets_nonblocking = false;
        sc.resize_targets = targets;
        v.push(seq(&format!("abandon-after-resize/ms{}", ms), "histories with resize(): a get() that waits, creates or recycles on a shrunk or grown pool is abandoned; capacity probe and ledger at the end", if b.thorough { 4 } else { 3 }, sc));
    }
    v
}

// ---------------------------------------------------------------- C04 / C13

pub fn c04_scenarios(tier: Tier, base: &[&'static str]) -> Vec<Scenario> {
    let b = bounds(tier);
    let mut v = Vec::new();
    for layout in 0u8..=6 {
        for lifo in [false, true] {
            if !b.thorough && lifo && layout != 3 && layout != 0 {
                continue;
            }
            let ms = if layout == 0 { 3 } else { 2 };
            let mut c = PoolCfg::simple(ms);
            c.lifo = lifo;
            c.create_menu = ERRS.to_vec();
            c.recycle_menu = ERRS.to_vec();
            c = with_hooks(c, layout, ERRS);
            let mut sc = SeqScenario::new(c, if b.thorough { 10 } else { 8 }, base);
            sc.max_tasks = 1;
            sc.prefill = ms;
            sc.take = false;
            sc.gets_nonblocking = false;
            sc.cancel = true;
            sc.stop_anywhere = false;
            let f = if layout >= 3 { if b.thorough { 3 } else { 2 } } else if b.thorough { 4 } else { 3 };
            v.push(seq(&format!("outcomes/hooks{}/{}", layout, if lifo { "lifo" } else { "fifo" }), "one get at a time over a pool of idle objects: every assignment of ok / error / delayed outcomes to create, recycle and each hook, plus abandonment", f, sc));
        }
    }
    // the same with wait / create / recycle timeouts configured (they never
    // fire): every step goes through the timeout wrappers
    for layout in [0u8, 3] {
        let mut c = PoolCfg::simple(2);
        c.create_menu = ERRS.to_vec();
        c.recycle_menu = ERRS.to_vec();
        c = with_hooks(c, layout, ERRS);
        let mut sc = SeqScenario::new(c, if b.thorough { 9 } else { 7 }, base);
        sc.max_tasks = 1;
        sc.prefill = 2;
        sc.take = false;
        sc.stop_anywhere = false;
        sc.timeouts = true;
        v.push(seq(&format!("outcomes/with-timeouts/hooks{}", layout), "pool built with one-hour wait/create/recycle timeouts and the tokio runtime (paused clock, never advanced): every outcome assignment again", if b.thorough { 3 } else { 2 }, sc));
    }
    // two gets in flight: a slow, finally rejected recycle in one of them while
    // the other hands out / returns / creates objects (metrics of objects that
    // change hands between concurrent gets)
    for lifo in [false, true] {
        let mut c = PoolCfg::simple(2);
        c.lifo = lifo;
        c.create_menu = vec![Out::Ok, Out::PendOk];
        c.recycle_menu = vec![Out::Ok, Out::PendOk, Out::PendErr, Out::Err];
        let mut sc = SeqScenario::new(c, if b.thorough { 10 } else { 8 }, base);
        sc.max_tasks = 2;
        sc.prefill = 2;
        sc.take = false;
        sc.cancel = false;
        sc.gets_nonblocking = false;
        sc.stop_anywhere = false;
        v.push(seq(&format!("two-gets-in-flight/{}", if lifo { "lifo" } else { "fifo" }), "two concurrent gets over two idle objects with delayed / failing recycles: objects change hands between the calls", if b.thorough { 3 } else { 2 }, sc));
    }
    // sync hooks may also panic
    let mut c = PoolCfg::simple(2);
    c.create_menu = vec![Out::Ok, Out::Err];
    c.recycle_menu = vec![Out::Ok, Out::Err, Out::Panic];
    c = with_hooks(c, 1, SYNC_MENU);
    let mut sc = SeqScenario::new(c, if b.thorough { 8 } else { 6 }, base);
    sc.max_tasks = 1;
    sc.prefill = 2;
    sc.take = false;
    sc.stop_anywhere = false;
    v.push(seq("outcomes/sync-hooks-panic", "sync hooks and recycle may panic", if b.thorough { 3 } else { 2 }, sc));
    v
}

// ---------------------------------------------------------------- C06

pub fn c06_scenarios(tier: Tier) -> Vec<Scenario> {
    let b = bounds(tier);
    let base: &[&'static str] = &["C06"];
    let (p, f) = (b.p, b.f.min(1));
    let mut v = Vec::new();
    let mut slow = PoolCfg::simple(1);
    slow.create_menu = vec![Out::Ok, Out::PendOk, Out::PendErr];
    slow.recycle_menu = vec![Out::Ok, Out::PendOk, Out::PendErr];
    let sc = ConcScenario::new(slow.clone(), vec![vec![get(), Op::Release], vec![get(), Op::Release], vec![Op::Close]], base);
    v.push(conc_paid("close-vs-waiter/ms1", "close() while one getter holds the slot and another waits for it", if b.thorough { 3 } else { 2 }, f, sc));
    let mut sc = ConcScenario::new(slow.clone(), vec![vec![get(), Op::Release], vec![Op::Close, get_nb(), get()]], base);
    sc.prefill = 1;
    v.push(conc("close-vs-recycling-getter/ms1", "close() while a getter is creating / recycling; gets after close", p, f, sc));
    let mut sc = ConcScenario::new(PoolCfg::simple(2), vec![vec![get(), Op::Release], vec![Op::Close]], base);
    sc.prefill = 1;
    v.push(conc("close-vs-return/ms2", "an object is returned on another thread while close() runs (window between unlock and add_permits)", p.max(2), 0, sc.clone()));
    sc.actors = vec![vec![get(), Op::Take], vec![Op::Close]];
    v.push(conc("close-vs-take/ms2", "an object is taken while close() runs", p.max(2), 0, sc.clone()));
    sc.actors = vec![vec![Op::Resize(1)], vec![Op::Close, Op::Status]];
    sc.prefill = 2;
    v.push(conc("close-vs-resize/ms2", "resize(n) racing with close(): the closed pool must report max_size 0", p.max(2), 0, sc.clone()));
    sc.actors = vec![vec![Op::Retain], vec![Op::Close]];
    v.push(conc("close-vs-retain/ms2", "retain racing with close()", p.max(2), 0, sc.clone()));
    sc.actors = vec![vec![Op::Close, Op::Resize(2), get_nb()], vec![Op::Close, get()]];
    v.push(conc("close-twice-then-use/ms2", "two close() calls, then resize and gets", p, 0, sc.clone()));
    let mut sc = ConcScenario::new(PoolCfg::simple(2), vec![vec![get(), Op::DropPool, Op::Release], vec![get(), Op::Close, Op::DropPool, Op::Release]], base);
    sc.drop_controller_handle = true;
    v.push(conc("objects-outlive-pool/ms2", "every pool handle is dropped while objects are still checked out; they are then dropped", p, 0, sc));
    // pools whose limit is already 0 when close() runs
    let mut sc = ConcScenario::new(PoolCfg::simple(1), vec![vec![Op::Resize(0)], vec![Op::Close, Op::Resize(2), get_nb()], vec![get(), Op::Release]], base);
    sc.prefill = 1;
    v.push(conc_paid("close-vs-resize-to-zero/ms1", "resize(0) racing with close(), then resize and get on the closed pool, with a getter around", if b.thorough { 3 } else { 2 }, 0, sc));
    let mut c0 = PoolCfg::simple(0);
    c0.create_menu = vec![Out::Ok, Out::Err];
    let mut sc = SeqScenario::new(c0, if b.thorough { 7 } else { 5 }, base);
    sc.close = true;
    sc.max_tasks = 2;
    sc.resize_targets = vec![0, 1];
    sc.retain = false;
    v.push(seq("close-histories/ms0", "a pool built with max_size 0: close() at every position, waiters, resize", 1, sc));
    // histories with close anywhere
    for ms in [1usize, 2] {
        let mut c = PoolCfg::simple(ms);
        c.create_menu = vec![Out::Ok, Out::PendOk, Out::Err];
        c.recycle_menu = vec![Out::Ok, Out::PendOk, Out::Err];
        let mut sc = SeqScenario::new(c, if b.thorough { 8 } else { 6 }, base);
        sc.close = true;
        sc.max_tasks = 2;
        sc.resize_targets = vec![0, 2];
        sc.retain = false;
        sc.prefill = ms.min(1);
        v.push(seq(&format!("close-histories/ms{}", ms), "close() at every position of every history of gets, polls, returns, takes, cancels and resize", if b.thorough { 2 } else { 1 }, sc));
    }
    // the same with waiters that wait through the runtime's timeout wrapper
    // (wait / create / recycle timeouts of one hour that never fire)
    {
        let mut c = PoolCfg::simple(1);
        c.create_menu = vec![Out::Ok, Out::PendOk, Out::Err];
        c.recycle_menu = vec![Out::Ok, Out::Err];
        let mut sc = SeqScenario::new(c, if b.thorough { 7 } else { 5 }, base);
        sc.close = true;
        sc.max_tasks = 2;
        sc.resize_targets = vec![0, 2];
        sc.retain = false;
        sc.prefill = 1;
        sc.timeouts = true;
        sc.gets_nonblocking = false;
        v.push(seq("close-histories-with-timeouts/ms1", "close() at every position of histories whose gets wait, create and recycle under (never firing) timeouts: a queued waiter must see Closed, not Timeout", if b.thorough { 2 } else { 1 }, sc));
    }
    if b.thorough {
        v.extend(generated(base, Some(("CLOSE", vec![Op::Close])), 2, 2, 1, false));
        v.extend(generated(base, Some(("CLOSE+GET", vec![Op::Close, get_nb(), Op::Status])), 2, 2, 0, false));
    }
    v
}

// ---------------------------------------------------------------- C07

pub fn c07_scenarios(tier: Tier) -> Vec<Scenario> {
    let b = bounds(tier);
    let base: &[&'static str] = &["C07"];
    let mut v = Vec::new();
    for ms in [0usize, 1, 2] {
        let mut c = PoolCfg::simple(ms);
        c.create_menu = vec![Out::Ok, Out::PendOk, Out::Err];
        let mut sc = SeqScenario::new(c, if b.thorough { 8 } else if ms == 0 { 6 } else { 5 }, base);
        sc.resize_targets = vec![0, 1, 2, 3];
        sc.max_tasks = 3;
        sc.take = true;
        sc.gets_nonblocking = true;
        sc.cancel = true;
        v.push(seq(&format!("resize-histories/ms{}", ms), "every history of gets, polls, returns, takes, cancels and resize(0..=3)", if b.thorough { 2 } else { 1 }, sc));
    }
    let mut c = PoolCfg::simple(2);
    c.recycle_menu = vec![Out::Ok, Out::Err];
    let mut sc = SeqScenario::new(c, if b.thorough { 7 } else { 5 }, base);
    sc.resize_targets = vec![0, 1, 3];
    sc.prefill = 2;
    sc.retain = true;
    sc.max_tasks = 2;
    v.push(seq("resize-histories-prefilled/ms2", "same from a pool with two idle objects, with retain", 1, sc));
    // thread level
    let (p, f) = (b.p, b.f.min(1));
    let mut slow = PoolCfg::simple(2);
    slow.create_menu = vec![Out::Ok, Out::PendOk, Out::PendErr];
    let mut sc = ConcScenario::new(slow.clone(), vec![vec![get(), Op::Release], vec![Op::Resize(1)]], base);
    sc.prefill = 1;
    v.push(conc("shrink-vs-return/ms2", "shrink racing with a get / return on another thread", p, f, sc.clone()));
    sc.actors = vec![vec![get(), Op::Take], vec![Op::Resize(1)]];
    v.push(conc("shrink-vs-take/ms2", "shrink racing with take()", p, f, sc.clone()));
    {
        let mut sc = ConcScenario::new(PoolCfg::simple(2), vec![vec![Op::Retain], vec![Op::Resize(1), Op::Resize(2)], vec![get(), Op::Release]], base);
        sc.prefill = 2;
        v.push(conc_paid("resize-vs-retain/ms2", "shrink and grow racing with retain() and a getter", p, 0, sc));
        let mut c = PoolCfg::simple(2);
        c.recycle_menu = vec![Out::Ok, Out::Err];
        let mut sc = ConcScenario::new(c, vec![vec![get(), Op::Release], vec![Op::Resize(1), Op::Resize(2)]], base);
        sc.prefill = 2;
        v.push(conc("resize-vs-failing-recycle/ms2", "shrink and grow while a getter's recycle fails and a replacement is created", p, 1, sc));
    }
    let sc2 = ConcScenario::new(PoolCfg::simple(1), vec![vec![get(), Op::Release], vec![get(), Op::Release], vec![Op::Resize(2)]], base);
    v.push(conc_paid("grow-with-waiter/ms1", "grow while a getter waits: the added slot must be usable at once", if b.thorough { 3 } else { 2 }, 0, sc2));
    sc.actors = vec![vec![Op::Resize(1), Op::Resize(2)], vec![get(), Op::Release], vec![get(), Op::Release]];
    sc.prefill = 0;
    v.push(conc_paid("shrink-grow-vs-getters/ms2", "shrink then grow while two getters run", if b.thorough { 3 } else { 2 }, 0, sc.clone()));
    let sc3 = ConcScenario::new(PoolCfg::simple(2), vec![vec![Op::Resize(1)], vec![Op::Resize(3)], vec![get(), Op::Release]], base);
    v.push(conc_paid("resize-vs-resize/ms2", "two concurrent resizes and a getter", if b.thorough { 3 } else { 2 }, 0, sc3));
    // races that start from a pool which still owes permits after a shrink
    let mut sc = ConcScenario::new(slow.clone(), vec![vec![Op::Release], vec![Op::Take], vec![get(), Op::Release]], base);
    sc.pre = vec![Pre::Hold(0), Pre::Hold(1), Pre::Resize(1)];
    v.push(conc_paid("owed/return-vs-take-vs-get/ms2to1", "two objects out, shrunk to 1 (one permit owed): a return, a take and a new get race", if b.thorough { 3 } else { 2 }, 0, sc.clone()));
    sc.actors = vec![vec![Op::Release], vec![Op::Resize(2), Op::Resize(0)], vec![get(), Op::Release]];
    v.push(conc_paid("owed/return-vs-grow-shrink-vs-get/ms2to1", "one permit owed: a return races with grow + shrink and a new get", if b.thorough { 3 } else { 2 }, 0, sc.clone()));
    sc.pre = vec![Pre::Hold(0), Pre::Hold(1), Pre::Resize(0)];
    sc.actors = vec![vec![Op::Release], vec![Op::Release], vec![Op::Resize(1), get_nb(), Op::Release]];
    v.push(conc_paid("owed/two-returns-vs-grow/ms2to0", "shrunk to 0 with two objects out (two permits owed): both come back while the pool grows to 1", if b.thorough { 3 } else { 2 }, 0, sc.clone()));
    sc.pre = vec![Pre::Hold(0), Pre::Resize(0)];
    sc.actors = vec![vec![Op::Take], vec![Op::Close], vec![get()]];
    v.push(conc_paid("owed/take-vs-close-vs-get/ms2to0", "one permit owed, then take, close and a get race", if b.thorough { 3 } else { 2 }, 0, sc));
    if b.thorough {
        for n in [0usize, 1, 3] {
            let name: &'static str = ["RESIZE0", "RESIZE1", "", "RESIZE3"][n];
            v.extend(generated(base, Some((name, vec![Op::Resize(n)])), 2, 2, 1, false));
        }
        v.extend(generated(base, Some(("SHRINK-GROW", vec![Op::Resize(0), Op::Resize(2)])), 2, 2, 0, false));
    }
    v
}

// ---------------------------------------------------------------- C08

pub fn c08_scenarios(tier: Tier) -> Vec<Scenario> {
    let b = bounds(tier);
    let base: &[&'static str] = &["C08"];
    let mut v = Vec::new();
    for lifo in [false, true] {
        for ms in [2usize, 3] {
            let mut c = PoolCfg::simple(ms);
            c.lifo = lifo;
            c.recycle_menu = vec![Out::Ok, Out::Err];
            let mut sc = SeqScenario::new(c, if b.thorough { 8 } else { 6 }, base);
            sc.max_tasks = 3;
            sc.retain = true;
            sc.cancel = false;
            sc.resize_targets = if ms == 3 { vec![2] } else { vec![] };
            sc.prefill = if ms == 3 { 3 } else { 0 };
            sc.gets_nonblocking = false;
            v.push(seq(&format!("order-histories/{}/ms{}", if lifo { "lifo" } else { "fifo" }, ms), "every history of gets, returns in any order, takes, retains, resizes and rejected recycles; the object offered first must be the longest-idle (Fifo) / most recently returned (Lifo) one, create only when nothing idle is left", 2, sc));
        }
    }
    v
}

/// The configuration reaches the pool through the builder: every order and
/// flavour of the builder calls (`build_pool_with`) x both queue modes x
/// timeouts configured or not, followed by short histories whose reuse order
/// (C08) and capacity (C01) reveal what the pool was really built with.
pub fn builder_scenarios(tier: Tier, base: &[&'static str]) -> Vec<Scenario> {
    let b = bounds(tier);
    let mut v = Vec::new();
    for lifo in [false, true] {
        for timeouts in [false, true] {
            let mut c = PoolCfg::simple(2);
            c.lifo = lifo;
            c.builder_sweep = true;
            let mut sc = SeqScenario::new(c, if b.thorough { 7 } else { 5 }, base);
            sc.max_tasks = 3;
            sc.cancel = false;
            sc.take = false;
            sc.gets_nonblocking = false;
            sc.timeouts = timeouts;
            v.push(seq(
                &format!("builder-orders/{}/{}", if lifo { "lifo" } else { "fifo" }, if timeouts { "timeouts" } else { "plain" }),
                "the same max_size / timeouts / queue mode / runtime given to the builder in 7 different orders and flavours (setters in either order, per-timeout setters, config(), config() then setters, a setter called twice, setters after runtime()); then every short history of gets and returns: reuse order and capacity must be those configured",
                0,
                sc,
            ));
        }
    }
    v
}

// ---------------------------------------------------------------- C09

pub fn c09_scenarios(tier: Tier) -> Vec<Scenario> {
    c09_scenarios_for(tier, &["C09"])
}

pub fn c09_scenarios_for(tier: Tier, base: &'static [&'static str]) -> Vec<Scenario> {
    let b = bounds(tier);
    let mut v = Vec::new();
    for (ms, prefill) in [(2usize, 2usize), (3, 3)] {
        let mut c = PoolCfg::simple(ms);
        c.recycle_menu = vec![Out::Ok, Out::Err];
        let mut sc = SeqScenario::new(c, if b.thorough { 7 } else { 5 }, base);
        sc.retain = true;
        sc.take = true;
        sc.max_tasks = 2;
        sc.prefill = prefill;
        sc.resize_targets = vec![0, 1, 3];
        sc.close = true;
        sc.gets_nonblocking = false;
        v.push(seq(&format!("retain-take-histories/ms{}", ms), "every history mixing retain (all predicates as subsets of the idle objects, stateful by construction), take, gets, returns, resize and close; detach ledger and capacity probe at the end", 1, sc));
    }
    let (p, f) = (b.p, 0);
    let mut sc = ConcScenario::new(PoolCfg::simple(2), vec![vec![Op::Retain], vec![get(), Op::Release]], base);
    sc.prefill = 2;
    v.push(conc("retain-vs-get-return/ms2", "retain racing with a get and a return", p, f, sc.clone()));
    sc.actors = vec![vec![Op::Retain], vec![get(), Op::Take]];
    v.push(conc("retain-vs-take/ms2", "retain racing with get + take", p, f, sc.clone()));
    sc.actors = vec![vec![Op::Retain, Op::Retain], vec![get(), Op::Release, get(), Op::Take]];
    v.push(conc("retain-twice-vs-get-take/ms2", "two retains racing with return and take", if b.thorough { 3 } else { 2 }, f, sc));
    // retain / take against the operations that change the limit, and against
    // each other ("histories mixing retain / take with ... resizes and close, at
    // task and thread level")
    let mut sc = ConcScenario::new(PoolCfg::simple(2), vec![vec![Op::Retain], vec![Op::Resize(1), Op::Resize(3)]], base);
    sc.prefill = 2;
    v.push(conc("retain-vs-resize/ms2", "retain racing with a shrink and a grow", p, f, sc.clone()));
    sc.actors = vec![vec![Op::Retain], vec![Op::Close]];
    v.push(conc("retain-vs-close/ms2", "retain racing with close(): every object is detached exactly once", p, f, sc.clone()));
    sc.actors = vec![vec![Op::Retain], vec![Op::Retain], vec![get(), Op::Release]];
    v.push(conc_paid("retain-vs-retain/ms2", "two retains and a getter", p, f, sc.clone()));
    sc.actors = vec![vec![get(), Op::Take, get(), Op::Release], vec![Op::Resize(1)]];
    v.push(conc("take-vs-shrink/ms2", "take() racing with a shrink: the taken object's slot is accounted once", p, f, sc.clone()));
    sc.actors = vec![vec![get(), Op::Take], vec![Op::Close], vec![get(), Op::Take]];
    v.push(conc_paid("take-vs-close/ms2", "take() on two threads racing with close()", p, f, sc));
    if b.thorough {
        v.extend(generated(base, Some(("RETAIN", vec![Op::Retain])), 2, 2, 0, false));
    }
    v
}

// ---------------------------------------------------------------- C11

pub fn c11_scenarios(tier: Tier) -> Vec<Scenario> {
    let b = bounds(tier);
    let base: &[&'static str] = &["C11"];
    let mut v = Vec::new();
    // interleave the status() call itself
    let mut sc = ConcScenario::new(faulty_cfg(1), vec![vec![get(), Op::Release], vec![Op::Status, Op::Status]], base);
    v.push(conc("status-vs-get-return/ms1", "status() on its own thread while a get and a return run with every fault", b.p, b.f, sc.clone()));
    sc.prefill = 1;
    sc.actors = vec![vec![get(), Op::Take], vec![Op::Status, Op::Status]];
    v.push(conc("status-vs-take/ms1", "status() while an idle object is recycled and taken", b.p, b.f, sc.clone()));
    let mut c = faulty_cfg(2);
    c.post_create = vec![hook(false, SYNC_MENU), hook(true, FAULTY)];
    let sc2 = ConcScenario::new(c, vec![vec![get(), Op::Release], vec![get(), Op::Release], vec![Op::Status]], base);
    v.push(conc_paid("status-vs-failing-post-create/ms2", "failing / panicking post_create hooks (the 0.9.5 overflow) observed by status()", if b.thorough { 3 } else { 2 }, b.f, sc2));
    // status() itself interleaved with the operations that rewrite several
    // figures at once
    let mut sc = ConcScenario::new(PoolCfg::simple(2), vec![vec![Op::Resize(1), Op::Resize(3)], vec![Op::Status, Op::Status], vec![get(), Op::Release]], base);
    sc.prefill = 2;
    v.push(conc_paid("status-vs-resize/ms2", "status() while a shrink and a grow run next to a getter", b.p, 0, sc.clone()));
    sc.actors = vec![vec![Op::Close], vec![Op::Status, Op::Status], vec![get(), Op::Release]];
    v.push(conc_paid("status-vs-close/ms2", "status() while close() runs next to a getter", b.p, 0, sc.clone()));
    sc.actors = vec![vec![Op::Retain], vec![Op::Status, Op::Status], vec![get(), Op::Take]];
    v.push(conc_paid("status-vs-retain/ms2", "status() while retain() runs next to a get + take", b.p, 0, sc));
    // thread level: retain() (which rewrites the size counter) racing with the
    // other writers of it - take, create, a failing recycle, resize
    let mut sc = ConcScenario::new(PoolCfg::simple(2), vec![vec![Op::Retain], vec![get(), Op::Take]], base);
    sc.prefill = 2;
    v.push(conc("retain-vs-take/ms2", "retain racing with get + take; status() at every quiescent point and at rest", b.p, 0, sc.clone()));
    sc.prefill = 1;
    sc.actors = vec![vec![Op::Retain], vec![get(), Op::Release], vec![get(), Op::Release]];
    v.push(conc_paid("retain-vs-create/ms2", "retain racing with one get that reuses and one that creates", b.p, 0, sc.clone()));
    let mut c = PoolCfg::simple(2);
    c.recycle_menu = vec![Out::Ok, Out::Err];
    let mut sc = ConcScenario::new(c, vec![vec![Op::Retain], vec![get(), Op::Release]], base);
    sc.prefill = 1;
    v.push(conc("retain-vs-failing-recycle/ms2", "retain racing with a get whose recycle fails (object discarded, replacement created)", b.p, 1, sc));
    let mut sc = ConcScenario::new(PoolCfg::simple(2), vec![vec![Op::Retain], vec![Op::Resize(1)], vec![get(), Op::Release]], base);
    sc.prefill = 2;
    v.push(conc_paid("retain-vs-resize/ms2", "retain racing with a shrink and a get", b.p, 0, sc));
    // max_size at rest after resize() and close() raced (a closed pool reports 0)
    let mut sc = ConcScenario::new(PoolCfg::simple(2), vec![vec![Op::Resize(1), Op::Resize(3)], vec![Op::Close, Op::Status]], base);
    sc.prefill = 2;
    v.push(conc("resize-vs-close/ms2", "two resizes racing with close(); status() at rest", b.p, 0, sc));
    v.extend(seq_core(tier, base));
    let mut c = PoolCfg::simple(2);
    c.create_menu = vec![Out::Ok, Out::Err, Out::PendOk];
    let mut sc = SeqScenario::new(c, if b.thorough { 7 } else { 5 }, base);
    sc.resize_targets = vec![0, 1, 3];
    sc.close = true;
    sc.retain = true;
    sc.max_tasks = 2;
    sc.prefill = 1;
    v.push(seq("status-after-resize-close/ms2", "status() at every quiescent point of histories with resize, close, retain and take", 1, sc));
    v
}

// ---------------------------------------------------------------- C05 / C12 (unmanaged)

fn uconc(name: &str, about: &str, p: u32, f: u32, build: UBuild, actors: Vec<Vec<UOp>>) -> Scenario {
    let paid = actors.len() >= 3;
    let sc = UScenario { build, actors, free_boundaries: !paid, cancels: true };
    let about = if paid { format!("{} [switches at operation boundaries count as preemptions]", about) } else { about.to_string() };
    Scenario::new(name, &about, p, f, move || run_uconc(&sc))
}

fn useq(name: &str, about: &str, f: u32, sc: USeqScenario) -> Scenario {
    Scenario::new(name, about, 0, f, move || run_useq(&sc))
}

pub fn unmanaged_scenarios(tier: Tier, with_close: bool) -> Vec<Scenario> {
    let b = bounds(tier);
    let p = b.p + 1;
    let f = 1;
    let g = || UOp::Get { cancel: true };
    let a = || UOp::Add { cancel: true };
    let mut v = Vec::new();
    if !with_close {
        v.push(uconc("add-vs-get/new1", "add() racing with get(): object pushed before its permit is added", p, f, UBuild::New(1), vec![vec![a(), UOp::TryAdd], vec![g(), UOp::Release]]));
        v.push(uconc("return-vs-get/vec1", "an object is returned while another caller waits for it", p, f, UBuild::FromVec(1), vec![vec![g(), UOp::Release], vec![g(), UOp::Release]]));
        v.push(uconc("try_add-vs-try_add/new1", "two try_add calls (and a blocking add) racing for the only free slot: exactly one object gets in", p, f, UBuild::New(1), vec![vec![UOp::TryAdd], vec![UOp::TryAdd], vec![a()]]));
        v.push(uconc("try_add-vs-add-after-take/vec2", "a slot freed by take() is claimed by try_add and add at once", p, f, UBuild::FromVec(2), vec![vec![UOp::TryGet, UOp::Take], vec![UOp::TryAdd], vec![a()]]));
        v.push(uconc("take-vs-take/vec2", "two objects taken out of a full pool on two threads at once, each then put back with try_add: both slots must be free again", p, f, UBuild::FromVec(2), vec![vec![UOp::TryGet, UOp::Take, UOp::TryAdd], vec![UOp::TryGet, UOp::Take, UOp::TryAdd]]));
        v.push(uconc("remove-vs-remove/vec2", "try_remove on two threads at once, then the pool is refilled", p, f, UBuild::FromVec(2), vec![vec![UOp::TryRemove, UOp::TryAdd], vec![UOp::TimeoutRemove0, UOp::TryAdd]]));
        v.push(uconc("take-vs-add-waiting/vec1", "take() frees a slot while add() waits for one", p, f, UBuild::FromVec(1), vec![vec![g(), UOp::Take], vec![a(), UOp::TryAdd]]));
        v.push(uconc("try_add-at-limit/cfg1", "try_add at the limit racing with remove", p, f, UBuild::FromConfig(1), vec![vec![UOp::TryAdd, UOp::TryAdd], vec![UOp::Remove, UOp::TryRemove]]));
        v.push(uconc("remove-frees-add/new1", "remove() makes room for a waiting add()", p, f, UBuild::New(1), vec![vec![a(), a()], vec![UOp::Remove, UOp::Status]]));
        v.push(uconc("two-getters-one-object/new2", "two getters, one adder", 2, f, UBuild::New(2), vec![vec![g(), UOp::Release], vec![g(), UOp::Take], vec![a(), a()]]));
        v.push(uconc("cancel-waiting-get-and-add/vec1", "waiting get() and add() calls are abandoned while returns and takes happen", p, 2, UBuild::FromVec(1), vec![vec![g(), UOp::Release, a()], vec![g(), UOp::Take]]));
        v.push(uconc("zero-size/new0", "max_size 0: add waits forever, try_add reports Timeout", p, f, UBuild::New(0), vec![vec![UOp::TryAdd, a()], vec![UOp::TryGet, UOp::TimeoutGet0]]));
        v.push(uconc("timeout0-vs-return/vec2", "timeout_get(0) and try_get racing with returns", p, f, UBuild::FromVec(2), vec![vec![UOp::TimeoutGet0, UOp::TryGet, UOp::Release, UOp::Release], vec![g(), UOp::Release]]));
        for (name, build) in [("new2", UBuild::New(2)), ("vec2", UBuild::FromVec(2)), ("cfg1", UBuild::FromConfig(1)), ("new0", UBuild::New(0)), ("vec0", UBuild::FromVec(0))] {
            v.push(useq(&format!("histories/{}", name), "every history of get / try_get / timeout_get(0) / add / try_add / remove / try_remove / take / return with cancellation of waiting get() and add()", if b.thorough { 2 } else { 1 }, USeqScenario { build, depth: if b.thorough { 8 } else { 6 }, max_tasks: 2, close: false, cancel: true, bfs: false }));
        }
    } else {
        v.push(uconc("close-vs-get/vec1", "close() clears the queue between a getter's permit and its pop", p, f, UBuild::FromVec(1), vec![vec![UOp::TryGet, UOp::Release], vec![UOp::Close]]));
        v.push(uconc("close-vs-blocking-get/vec1", "close() vs a blocking get and a return", p, f, UBuild::FromVec(1), vec![vec![g(), UOp::Release, g()], vec![UOp::Close, UOp::TryGet]]));
        v.push(uconc("close-vs-add/new1", "close() vs add()/try_add(): the object must not stay in the closed pool", p, f, UBuild::New(1), vec![vec![a(), UOp::TryAdd], vec![UOp::Close, UOp::TryAdd]]));
        v.push(uconc("close-vs-waiting-add/vec1", "close() while add() waits for a slot and a getter holds the object", p, f, UBuild::FromVec(1), vec![vec![g(), UOp::Release], vec![a()], vec![UOp::Close]]));
        v.push(uconc("close-vs-take-return/vec2", "close() vs take and return", p, f, UBuild::FromVec(2), vec![vec![UOp::TryGet, UOp::Take, UOp::TryGet, UOp::Release], vec![UOp::Close, UOp::Status]]));
        v.push(uconc("close-twice/vec2", "two close() calls on two threads over a pool holding objects, then try_get / try_add: neither call may return before the pool is empty", p, f, UBuild::FromVec(2), vec![vec![UOp::Close, UOp::TryGet], vec![UOp::Close, UOp::TryAdd]]));
        v.push(uconc("close-vs-remove/vec1", "close() vs remove()/try_remove()/timeout_get(0)", p, f, UBuild::FromVec(1), vec![vec![UOp::TryRemove, UOp::TimeoutGet0, UOp::TimeoutRemove0], vec![UOp::Close, UOp::Close]]));
        // "never with a panic" also without close(): the calls whose bookkeeping
        // meets in the size / available counters, on an empty pool
        v.push(uconc("add-vs-remove/new1", "add()/try_add() racing with remove()/try_remove() on an empty pool: no call may panic", p, f, UBuild::New(1), vec![vec![a(), UOp::TryAdd], vec![UOp::Remove, UOp::TryRemove]]));
        v.push(uconc("add-vs-get-take/new1", "add() racing with get() + take() on an empty pool, then close()", p, f, UBuild::New(1), vec![vec![a(), UOp::Close], vec![g(), UOp::Take]]));
        for (name, build) in [("new1", UBuild::New(1)), ("vec2", UBuild::FromVec(2)), ("new0", UBuild::New(0))] {
            v.push(useq(&format!("close-histories/{}", name), "close() at every position of every history of unmanaged pool operations", if b.thorough { 2 } else { 1 }, USeqScenario { build, depth: if b.thorough { 8 } else { 6 }, max_tasks: 2, close: true, cancel: true, bfs: false }));
        }
    }
    // thorough: every assignment of a script alphabet to three actors
    if b.thorough {
        let scripts: Vec<(&str, Vec<UOp>)> = vec![
            ("GR", vec![g(), UOp::Release]),
            ("GT", vec![g(), UOp::Take]),
            ("TR", vec![UOp::TryGet, UOp::Release]),
            ("A", vec![a()]),
            ("TA", vec![UOp::TryAdd]),
            ("RM", vec![UOp::Remove]),
            ("TRM", vec![UOp::TryRemove]),
            ("Z", vec![UOp::TimeoutGet0, UOp::Release]),
        ];
        let n_free = if with_close { 2 } else { 3 };
        for combo in multisets(scripts.len(), n_free) {
            for (bname, build) in [("new1", UBuild::New(1)), ("vec2", UBuild::FromVec(2))] {
                let mut actors: Vec<Vec<UOp>> = combo.iter().map(|i| scripts[*i].1.clone()).collect();
                let mut name = combo.iter().map(|i| scripts[*i].0).collect::<Vec<_>>().join("+");
                if with_close {
                    actors.push(vec![UOp::Close, UOp::Status]);
                    name.push_str("+CLOSE");
                }
                v.push(uconc(&format!("gen/{}/{}", name, bname), "generated: every assignment of the script alphabet {get+return, get+take, try_get+return, add, try_add, remove, try_remove, timeout_get(0)+return} to the actors (modulo renaming)", 2, 1, build, actors));
            }
        }
    }
    // breadth-first reachability to closure (unbounded history depth)
    let shapes: Vec<(&str, UBuild, usize)> = if b.thorough {
        vec![("new1", UBuild::New(1), 3), ("new2", UBuild::New(2), 3), ("vec2", UBuild::FromVec(2), 3), ("new3", UBuild::New(3), 3), ("vec3", UBuild::FromVec(3), 4), ("new0", UBuild::New(0), 3)]
    } else {
        vec![("new1", UBuild::New(1), 2), ("new2", UBuild::New(2), 3), ("vec2", UBuild::FromVec(2), 2), ("new0", UBuild::New(0), 2)]
    };
    for (name, build, tasks) in shapes {
        let mut s = useq(
            &format!("reach{}/{}/tasks{}", if with_close { "+close" } else { "" }, name, tasks),
            "all reachable abstract states of the unmanaged pool, breadth first to closure: from every state every operation (and abandonment of waiting calls), plus the stop-and-probe branch",
            0,
            USeqScenario { build, depth: usize::MAX, max_tasks: tasks, close: with_close, cancel: true, bfs: true },
        );
        s.bfs = true;
        v.push(s);
    }
    v
}

// ---------------------------------------------------------------- C10

pub fn c10_scenarios(tier: Tier) -> Vec<Scenario> {
    use crate::tworld::{run_time, run_utime, PState, TimeScenario, UTimeScenario};
    let b = bounds(tier);
    let ev = if b.thorough { 10 } else { 7 };
    let mut v = Vec::new();
    for with_runtime in [true, false] {
        for state in [PState::Empty, PState::Idle, PState::Exhausted, PState::Closed, PState::Owed, PState::Shared] {
            let sc = TimeScenario { with_runtime, state, max_events: if with_runtime { ev } else { 2 }, builder_sweep: b.thorough || !with_runtime || state == PState::Empty };
            v.push(Scenario::new(
                &format!("managed/{}/{:?}", if with_runtime { "tokio" } else { "no-runtime" }, state),
                "pool-level and per-call wait/create/recycle timeouts in {none, zero, 10ms} x every create/recycle answer x every ordering of clock advances (4ms / 12ms), slot release and gate completion before each poll, on a paused tokio clock",
                0,
                3,
                move || run_time(&sc),
            ));
        }
        if with_runtime {
            v.push(Scenario::new(
                "managed/tokio/zero-wait-burst",
                "300 zero-wait gets in a row inside one poll of a tokio task (its cooperative budget runs out on the way), zero wait per call or at pool level: all succeed on the idle pool, all fail at once with Timeout(Wait) on the exhausted one",
                0,
                0,
                crate::tworld::run_zero_wait_burst,
            ));
        }
        let sc = UTimeScenario { with_runtime, max_events: ev };
        v.push(Scenario::new(
            &format!("unmanaged/{}", if with_runtime { "tokio" } else { "no-runtime" }),
            "unmanaged pool: configured and per-call timeout in {none, zero, 10ms} x {object available, empty, closed} x every ordering of clock advances and an object being added",
            0,
            0,
            move || run_utime(&sc),
        ));
    }
    v
}

pub fn spec_for(prop: &str, tier: Tier) -> Option<CheckSpec> {
    let assumptions = vec![
        "sequentially consistent interleavings only (Relaxed atomics are explored as SC)".to_string(),
        "tokio::sync::Semaphore and std::sync::Mutex operations are atomic and correct".to_string(),
        "injected panics unwind as one scheduler step and are only injected while no pool lock is held".to_string(),
        "bounded: the listed scenarios, at most 3 actors / 3 concurrent gets, max_size <= 3, at most 2 hooks per kind".to_string(),
    ];
    let scenarios = match prop {
        "C01" => {
            let mut v = conc_core(tier, &["C01"]);
            v.extend(builder_scenarios(tier, &["C01"]));
            v.extend(reach_scenarios(tier, &["C01"], false, false));
            // "both queue modes"
            v.extend(lifo_scenarios(tier, &["C01"]));
            v
        }
        "C02" => {
            let mut v = conc_core(tier, &["C02"]);
            v.extend(seq_core(tier, &["C02"]));
            v.extend(reach_scenarios(tier, &["C02"], false, false));
            v.extend(lifo_scenarios(tier, &["C02"]));
            // "... or the pool is closed": waiters must be completed by close()
            v.extend(c06_scenarios(tier).into_iter().filter(|s| s.name.contains("close-histories") || s.name.contains("close-vs-waiter") || s.name.contains("resize-to-zero")));
            v.extend(reach_scenarios(tier, &["C02"], false, true));
            // capacity after histories mixing take / retain with resize and close
            v.extend(c09_scenarios_for(tier, &["C02"]).into_iter().filter(|s| s.name.contains("retain-take-histories")));
            // gets that really time out (virtual clock): every ordering of "deadline
            // passes", "slot freed", "create / recycle finishes", then the capacity probe
            v.extend(c10_scenarios(tier).into_iter().filter(|s| s.name.starts_with("managed/tokio/")).map(|mut s| {
                s.name = format!("timed-out-gets/{}", &s.name["managed/tokio/".len()..]);
                s
            }));
            v
        }
        "C03" => {
            let mut v = c03_scenarios(tier);
            v.extend(reach_scenarios(tier, &["C03"], false, false));
            v
        }
        "C04" => {
            let mut v = c04_scenarios(tier, &["C04"]);
            v.extend(reach_scenarios(tier, &["C04"], false, false));
            v.extend(reach_scenarios_mode(tier, &["C04"], false, false, true));
            v
        }
        "C13" => {
            let mut v = c04_scenarios(tier, &["C13"]);
            v.extend(reach_scenarios(tier, &["C13"], false, false));
            v.extend(reach_scenarios_mode(tier, &["C13"], false, false, true));
            v
        }
        "C06" => {
            let mut v = c06_scenarios(tier);
            v.extend(reach_scenarios(tier, &["C06"], false, true));
            v
        }
        "C07" => {
            let mut v = c07_scenarios(tier);
            v.extend(reach_scenarios(tier, &["C07"], true, false));
            v
        }
        "C08" => {
            let mut v = c08_scenarios(tier);
            v.extend(builder_scenarios(tier, &["C08"]));
            v.extend(reach_scenarios(tier, &["C08"], true, false));
            v.extend(reach_scenarios_mode(tier, &["C08"], true, false, true));
            v.extend(reach_scenarios(tier, &["C08"], false, false));
            v.extend(reach_scenarios_mode(tier, &["C08"], false, false, true));
            v
        }
        "C09" => {
            let mut v = c09_scenarios(tier);
            v.extend(reach_scenarios(tier, &["C09"], false, false));
            v.extend(reach_scenarios(tier, &["C09"], true, true));
            v
        }
        "C11" => {
            let mut v = c11_scenarios(tier);
            v.extend(reach_scenarios(tier, &["C11"], false, false));
            v.extend(reach_scenarios(tier, &["C11"], true, true));
            v
        }
        "C10" => c10_scenarios(tier),
        "C05" => unmanaged_scenarios(tier, false),
        "C12" => unmanaged_scenarios(tier, true),
        _ => return None,
    };
    Some(CheckSpec {
        property: prop.to_string(),
        level: "model_checking",
        rule: "stateless DFS over every schedule (preemption bound p), environment answer, cancellation (fault bound f) and operation history (depth bound) of each scenario on the real pool; non-trivial = execution that used at least one preemption or fault; distinct = distinct end-of-execution observation tuple (results of all gets, fate of every object)".to_string(),
        assumptions,
        bounds: json!({"tier": tier.name(), "per_scenario": "see coverage.scenarios[].bounds"}),
        scenarios,
    })
}
