//! Scenario lists per property and tier.
use dpmc::report::{CheckSpec, Scenario, Tier};
use serde_json::json;

use crate::conc::{run_conc, ConcScenario, Op};
use crate::mworld::{HookCfg, Out, PoolCfg};

fn get() -> Op {
    Op::Get { nb: false, cancel: true }
}
fn get_nb() -> Op {
    Op::Get { nb: true, cancel: false }
}

fn conc(name: &str, about: &str, p: u32, f: u32, sc: ConcScenario) -> Scenario {
    Scenario::new(name, about, p, f, move || run_conc(&sc))
}

const FAULTY: &[Out] = &[Out::Ok, Out::Err, Out::PendOk, Out::PendErr, Out::Never, Out::Panic];

fn faulty_cfg(ms: usize) -> PoolCfg {
    let mut c = PoolCfg::simple(ms);
    c.create_menu = FAULTY.to_vec();
    c.recycle_menu = FAULTY.to_vec();
    c
}

pub fn c01_scenarios(tier: Tier) -> Vec<Scenario> {
    let (p, f) = match tier {
        Tier::Quick => (2, 1),
        Tier::Thorough => (3, 2),
    };
    let mut v = Vec::new();
    let base = &["C01", "C02"];
    for ms in [1usize, 2] {
        let mut sc = ConcScenario::new(faulty_cfg(ms), vec![vec![get(), Op::Release], vec![get(), Op::Release]], base);
        v.push(conc(&format!("return-vs-get/ms{}", ms), "A and B each get and return: the push -> unlock -> add_permits window of a return racing an acquire", p, f, sc.clone()));
        sc.prefill = ms;
        v.push(conc(&format!("reject-then-create/ms{}", ms), "idle objects may fail recycling while a second getter waits (the 0.9.5 bug)", p, f, sc));
    }
    let sc = ConcScenario::new(faulty_cfg(1), vec![vec![get(), Op::Take], vec![get(), Op::Release]], base);
    v.push(conc("take-vs-get/ms1", "A takes its object while B acquires", p, f, sc));
    let mut sc = ConcScenario::new(faulty_cfg(2), vec![vec![Op::Retain], vec![get(), Op::Release], vec![get_nb(), Op::Release]], base);
    sc.prefill = 2;
    v.push(conc("retain-vs-get/ms2", "retain() removes idle objects while two getters run", p.min(2), f, sc));
    let mut c = faulty_cfg(1);
    c.post_create = vec![HookCfg { asynchronous: true, menu: FAULTY.to_vec() }];
    let sc = ConcScenario::new(c, vec![vec![get(), Op::Release], vec![get(), Op::Release]], base);
    v.push(conc("post-create-fails/ms1", "post_create hook may fail, hang or panic with a waiter queued", p, f, sc));
    let sc = ConcScenario::new(PoolCfg::simple(0), vec![vec![get_nb()], vec![get()]], base);
    v.push(conc("max-size-zero", "max_size 0: nobody ever gets an object", p, f, sc));
    v
}

pub fn spec_for(prop: &str, tier: Tier) -> Option<CheckSpec> {
    let assumptions = vec![
        "sequentially consistent interleavings only (Relaxed atomics are explored as SC)".to_string(),
        "tokio::sync::Semaphore and std::sync::Mutex operations are atomic and correct".to_string(),
        "injected panics unwind as one scheduler step and are only injected while no pool lock is held".to_string(),
    ];
    let scenarios = match prop {
        "C01" => c01_scenarios(tier),
        _ => return None,
    };
    Some(CheckSpec {
        property: prop.to_string(),
        level: "model_checking",
        rule: "stateless DFS over every schedule (preemption-bounded), environment answer and cancellation (fault-bounded) of each scenario; non-trivial = execution that used at least one preemption or fault; distinct = distinct end-of-execution observation tuple".to_string(),
        assumptions,
        bounds: json!({"tier": tier.name()}),
        scenarios,
    })
}
