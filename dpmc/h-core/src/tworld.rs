//! H-time (C10): timeouts, non-blocking mode and missing runtimes on a
//! virtual clock. One controller inside a paused current-thread tokio runtime
//! explores every configuration and every ordering of "deadline passes",
//! "slot freed", "create / recycle finishes" before each poll.

use std::hash::{Hash, Hasher};
use std::panic::{catch_unwind, AssertUnwindSafe};
use std::time::Duration;

use deadpool::managed::{BuildError, Object, PoolError, Timeouts};
use deadpool::Runtime;
use dpmc::explorer::{self, choose_free, note_state, Outcome, Violation};
use dpmc::sched::{self, Task};
use dpmc::trace;

use crate::conc::probe;
use crate::mworld::*;
use crate::mworld::EnvLog;

pub const T_MS: u64 = 10;
const STEP_SMALL: u64 = 4;
const STEP_BIG: u64 = 12;

#[derive(Clone, Copy, Debug, PartialEq, Eq, Hash)]
pub enum Tmo {
    None,
    Zero,
    T,
    /// `Duration::MAX`, the idiom for "never": a finite timeout that cannot
    /// pass within any history
    Max,
}

impl Tmo {
    fn dur(self) -> Option<Duration> {
        match self {
            Tmo::None => None,
            Tmo::Zero => Some(Duration::ZERO),
            Tmo::T => Some(Duration::from_millis(T_MS)),
            Tmo::Max => Some(Duration::MAX),
        }
    }
    fn ms(self) -> Option<u64> {
        match self {
            Tmo::None => None,
            Tmo::Zero => Some(0),
            Tmo::T => Some(T_MS),
            Tmo::Max => Some(1 << 40),
        }
    }
    fn nonzero(self) -> bool {
        matches!(self, Tmo::T | Tmo::Max)
    }
}

const TMOS: [Tmo; 4] = [Tmo::None, Tmo::Zero, Tmo::T, Tmo::Max];

#[derive(Clone, Copy, Debug, PartialEq, Eq, Hash)]
pub enum PState {
    Empty,
    Idle,
    Exhausted,
    Closed,
    /// max_size 2 shrunk to 1 while one object is checked out and another
    /// get() is stuck in create: one permit is owed. The stuck call can be
    /// abandoned and the holder can return its object, in any order.
    Owed,
    /// max_size 2 with one object checked out: the call under test has a slot
    /// at once and an empty idle queue, so it creates; the holder can return
    /// its object (which then sits idle) at any time during that create.
    Shared,
}

#[derive(Clone, Debug)]
pub struct TimeScenario {
    pub with_runtime: bool,
    pub state: PState,
    pub max_events: usize,
    /// sweep the order / flavour of the builder calls as well
    pub builder_sweep: bool,
}

fn triple(t: (Tmo, Tmo, Tmo)) -> Timeouts {
    Timeouts { wait: t.0.dur(), create: t.1.dur(), recycle: t.2.dur() }
}

fn pick_triple() -> (Tmo, Tmo, Tmo) {
    (TMOS[choose_free(4)], TMOS[choose_free(4)], TMOS[choose_free(4)])
}

pub fn run_time(sc: &TimeScenario) -> Outcome {
    sched::begin();
    let rt = tokio::runtime::Builder::new_current_thread().enable_time().start_paused(true).build().expect("tokio runtime");
    let out = rt.block_on(run_inner(sc));
    drop(rt);
    sched::end();
    out
}

fn c10(w: &mut World, key: &str, msg: String) {
    w.violate(&["C10"], key, msg);
}

async fn run_inner(sc: &TimeScenario) -> Outcome {
    let mut cfg = PoolCfg::simple(if matches!(sc.state, PState::Owed | PState::Shared) { 2 } else { 1 });
    cfg.create_menu = vec![Out::Ok, Out::Err, Out::PendOk, Out::Never];
    cfg.recycle_menu = vec![Out::Ok, Out::Err, Out::PendOk, Out::Never];
    cfg.auto_gates = false;
    // the timeouts reach the pool through any order / flavour of builder calls
    cfg.builder_sweep = sc.builder_sweep;
    init_world(cfg, &["C10"]);
    w(|w| w.allow_timeouts = true);
    let runtime = if sc.with_runtime { Some(Runtime::Tokio1) } else { None };
    // configuration: pool-level triple with get(), or per-call triple with
    // pool-level timeouts either absent or all set
    let per_call = choose_free(2) == 1;
    let (pool_level, call_level) = if per_call {
        let pl = if choose_free(2) == 1 { (Tmo::T, Tmo::T, Tmo::T) } else { (Tmo::None, Tmo::None, Tmo::None) };
        (pl, Some(pick_triple()))
    } else {
        (pick_triple(), None)
    };
    let eff = call_level.unwrap_or(pool_level);
    trace!("runtime {:?} pool-level {:?} per-call {:?} state {:?}", runtime, pool_level, call_level, sc.state);
    let violations_done = |obs: u64| -> Outcome {
        let mut world = drop_world().unwrap();
        let keep = std::mem::take(&mut world.keep);
        let hands = std::mem::take(&mut world.hands);
        let violations: Vec<Violation> = std::mem::take(&mut world.viol);
        drop(world);
        drop(hands);
        drop(keep);
        Outcome { obs, violations }
    };
    let built = build_pool_with(triple(pool_level), runtime);
    let configured_nonzero = pool_level.0.nonzero() || pool_level.1.nonzero() || pool_level.2.nonzero();
    let configured_any = pool_level != (Tmo::None, Tmo::None, Tmo::None);
    let pool = match built {
        Err(BuildError::NoRuntimeSpecified) => {
            w(|w| {
                if runtime.is_some() || !configured_any {
                    c10(w, "build-rejected-valid-config", format!("build() failed with NoRuntimeSpecified for timeouts {:?} runtime {:?}", pool_level, runtime));
                }
                if !w.objs.is_empty() || w.events > 0 {
                    c10(w, "build-error-touched-manager", "failed build() invoked the manager".into());
                }
            });
            return violations_done(1);
        }
        Ok(p) => {
            if runtime.is_none() && configured_nonzero {
                w(|w| c10(w, "build-accepted-timeouts-without-runtime", format!("build() accepted timeouts {:?} without a runtime", pool_level)));
                return violations_done(2);
            }
            p
        }
    };
    w(|w| w.handles = 1);
    // pool state
    w(|w| {
        w.forced_ok = true;
        w.seq_actor = Some(PROBE);
    });
    let nb = Timeouts { wait: Some(Duration::ZERO), create: None, recycle: None };
    let mut holder: Option<usize> = None;
    if matches!(sc.state, PState::Idle | PState::Exhausted | PState::Owed | PState::Shared) {
        let gi = w(|w| w.begin_get(PROBE, true));
        let p = pool.clone();
        let mut t = Task::new(async move { p.timeout_get(&nb).await });
        match t.poll() {
            Some(r) => finish_get(PROBE, gi, r),
            None => panic!("setup get pending"),
        }
        if sc.state == PState::Idle {
            while op_release(PROBE) {}
        } else {
            holder = Some(PROBE);
        }
    }
    w(|w| {
        w.forced_ok = false;
        w.seq_actor = None;
    });
    // Owed: a second call gets stuck in create, then the pool shrinks to 1
    let mut stuck: Option<(usize, Task<Result<Object<Mgr>, PoolError<MErr>>>)> = None;
    if sc.state == PState::Owed {
        let saved_menu = w(|w| std::mem::replace(&mut w.cfg.create_menu, vec![Out::Never]));
        let g0 = w(|w| w.begin_get(2, false));
        let p = pool.clone();
        let mut t0: Task<Result<Object<Mgr>, PoolError<MErr>>> = Task::new(async move { p.timeout_get(&Timeouts::new()).await });
        w(|w| w.seq_actor = Some(2));
        if t0.poll().is_some() {
            panic!("setup: stuck get completed");
        }
        w(|w| {
            w.seq_actor = Some(900);
            w.cfg.create_menu = saved_menu;
        });
        op_resize(900, &pool, 1);
        w(|w| w.seq_actor = None);
        stuck = Some((g0, t0));
    }
    if sc.state == PState::Closed {
        w(|w| w.seq_actor = Some(900));
        op_close(900, &pool);
        w(|w| w.seq_actor = None);
    }
    let objs_before = w(|w| w.objs.iter().filter(|o| o.alive).count());
    let events_before = w(|w| w.events);
    // the call under test
    let who = 1usize;
    let gi = w(|w| w.begin_get(who, eff.0 == Tmo::Zero));
    let p = pool.clone();
    let call_t = call_level.map(triple);
    let mut task: Task<Result<Object<Mgr>, PoolError<MErr>>> = Task::new(async move {
        match call_t {
            Some(t) => p.timeout_get(&t).await,
            None => p.get().await,
        }
    });
    let mut now: u64 = 0;
    let mut slot_free_at: Option<u64> = if matches!(sc.state, PState::Empty | PState::Idle | PState::Shared) { Some(0) } else { None };
    let mut deadline_passed_at: Option<u64> = None;
    let mut result: Option<Result<usize, String>> = None;
    let mut done_at: Option<u64> = None;
    let mut first_poll = true;
    let mut events = 0usize;
    let mut advanced_since_pending = false;
    // a busy executor: once per history a woken task may be left unpolled
    // until one more event has happened (a deadline and a grant can then both
    // be ready at the same poll)
    let mut may_defer = true;
    let mut deferred = false;
    loop {
        // poll when woken (the first poll always happens)
        let mut poll_now = task.woken() || first_poll;
        if poll_now && !first_poll && may_defer && events < sc.max_events && result.is_none() && choose_free(2) == 1 {
            trace!("t={}ms the woken task is not polled yet (busy executor)", now);
            may_defer = false;
            deferred = true;
            poll_now = false;
        }
        if poll_now {
            w(|w| w.seq_actor = Some(who));
            let r = catch_unwind(AssertUnwindSafe(|| task.poll()));
            w(|w| w.seq_actor = None);
            let in_env = w(|w| w.gets[gi].in_env);
            match r {
                Err(p) => {
                    let m = explorer::panic_msg(&p);
                    w(|w| c10(w, "panic", format!("get() panicked: {}", m)));
                    task.cancel();
                    w(|w| w.end_op(who));
                    result = Some(Err("panic".into()));
                    done_at = Some(now);
                }
                Ok(Some(r)) => {
                    let desc = match &r {
                        Ok(o) => Ok(o.id),
                        Err(PoolError::Timeout(t)) => Err(format!("Timeout({:?})", t)),
                        Err(PoolError::Closed) => Err("Closed".into()),
                        Err(PoolError::NoRuntimeSpecified) => Err("NoRuntimeSpecified".into()),
                        Err(PoolError::Backend(_)) => Err("Backend".into()),
                        Err(PoolError::PostCreateHook(_)) => Err("PostCreateHook".into()),
                    };
                    w(|w| w.seq_actor = Some(who));
                    finish_get(who, gi, r);
                    w(|w| w.seq_actor = None);
                    result = Some(desc);
                    done_at = Some(now);
                }
                Ok(None) => {
                    // pending: zero wait must never wait for a slot
                    if in_env.is_none() && eff.0 == Tmo::Zero {
                        w(|w| c10(w, "zero-wait-pending", "a get() with a zero wait timeout returned Pending while waiting for a slot".into()));
                    }
                    if first_poll && runtime.is_none() && eff.0.nonzero() {
                        w(|w| c10(w, "no-runtime-wait-pending", "wait timeout without runtime: get() went to sleep instead of reporting NoRuntimeSpecified".into()));
                    }
                    advanced_since_pending = false;
                }
            }
            first_poll = false;
        }
        // (a violation of another property does not end the history: C10's own
        // oracle still has to see how the call ends)
        if result.is_some() || events >= sc.max_events || w(|w| w.viol.iter().any(|v| v.property == "C10")) {
            break;
        }
        // next event
        let mut opts: Vec<u8> = Vec::new(); // 0 small advance, 1 big advance, 2 release, 3.. fire gate
        opts.push(0);
        opts.push(1);
        if holder.is_some() {
            opts.push(2);
        }
        if stuck.is_some() {
            opts.push(250);
        }
        let gates: Vec<usize> = sched::pending_gates().into_iter().filter(|(_, l)| l != "never").map(|(g, _)| g).collect();
        for i in 0..gates.len() {
            opts.push(3 + i as u8);
        }
        let k = choose_free(opts.len());
        explorer::count_step();
        events += 1;
        match opts[k] {
            250 => {
                trace!("t={}ms the call stuck in create is abandoned", now);
                let (g0, mut t0) = stuck.take().unwrap();
                w(|w| w.seq_actor = Some(2));
                t0.cancel();
                w(|w| {
                    w.seq_actor = None;
                    w.get_cancelled(g0);
                    w.end_op(2);
                });
                if holder.is_none() {
                    slot_free_at = Some(now);
                }
            }
            0 | 1 => {
                let d = if opts[k] == 0 { STEP_SMALL } else { STEP_BIG };
                now += d;
                if let Some(dl) = eff.0.ms() {
                    if now >= dl && deadline_passed_at.is_none() {
                        deadline_passed_at = Some(now);
                    }
                }
                w(|w| w.now = now);
                trace!("advance to t={}ms", now);
                tokio::time::advance(Duration::from_millis(d)).await;
                advanced_since_pending = true;
            }
            2 => {
                trace!("t={}ms holder returns its object", now);
                w(|w| w.seq_actor = Some(PROBE));
                while op_release(PROBE) {}
                w(|w| w.seq_actor = None);
                holder = None;
                if stuck.is_none() {
                    slot_free_at = Some(now);
                }
            }
            g => {
                let gid = gates[(g - 3) as usize];
                trace!("t={}ms gate {} completes", now, gid);
                sched::fire_gate(gid);
                w(|w| {
                    if let Some(l) = w.env_log.iter_mut().find(|l| l.gate == Some(gid)) {
                        l.fired_at = Some(now);
                    }
                });
            }
        }
        let mut h = std::collections::hash_map::DefaultHasher::new();
        (now, task.woken(), holder.is_some(), w(|w| w.env_log.len()), pool.verif_snapshot()).hash(&mut h);
        (runtime.is_some(), pool_level, call_level, sc.state).hash(&mut h);
        note_state(h.finish());
    }
    // ------------------------------------------------------------ oracle
    let no_rt = runtime.is_none();
    let needs_rt = eff.0.nonzero() || eff.1.nonzero() || eff.2.nonzero();
    let env: Vec<EnvLog> = w(|w| w.env_log.iter().filter(|l| l.get == Some(gi)).cloned().collect());
    let env_started = !env.is_empty();
    let _ = events_before;
    let alive_now = w(|w| w.objs.iter().filter(|o| o.alive).count());
    let closed = sc.state == PState::Closed;
    let wait_deadline = eff.0.ms();
    let slot_in_time = match (slot_free_at, wait_deadline) {
        (Some(_), None) => true,
        (Some(tf), Some(d)) => tf <= d,
        (None, _) => false,
    };
    match (&result, done_at) {
        (Some(Err(e)), Some(tc)) if e == "NoRuntimeSpecified" => w(|w| {
            if !(no_rt && (eff.0.nonzero() || eff.1 != Tmo::None || eff.2 != Tmo::None)) {
                c10(w, "spurious-no-runtime", format!("get() returned NoRuntimeSpecified with runtime {:?} and timeouts {:?}", runtime, eff));
            }
            if alive_now < objs_before && needs_rt {
                c10(w, "no-runtime-destroyed-object", format!("get() returned NoRuntimeSpecified after destroying {} pooled object(s)", objs_before - alive_now));
            }
            if env.iter().any(|e| e.site == Site::Create) && needs_rt {
                c10(w, "no-runtime-after-create", "get() returned NoRuntimeSpecified after calling Manager::create".into());
            }
            let _ = tc;
        }),
        (Some(Err(e)), Some(tc)) if e == "Timeout(Wait)" => w(|w| {
            match wait_deadline {
                None => c10(w, "wait-timeout-without-deadline", "Timeout(Wait) without a wait timeout".into()),
                Some(d) => {
                    if slot_in_time && !closed {
                        c10(w, "wait-timeout-although-slot-free", format!("Timeout(Wait) at t={}ms although a slot was free for this caller at t={:?}ms (deadline {}ms)", tc, slot_free_at, d));
                    }
                    if tc < d {
                        c10(w, "wait-timeout-early", format!("Timeout(Wait) at t={}ms before the deadline {}ms", tc, d));
                    }
                    if let Some(p) = deadline_passed_at {
                        if tc > p && !deferred {
                            c10(w, "wait-timeout-late", format!("Timeout(Wait) reported at t={}ms; the {}ms deadline had passed at t={}ms", tc, d, p));
                        }
                    }
                }
            }
            if env_started {
                c10(w, "wait-timeout-after-admission", "Timeout(Wait) although the call had already entered create/recycle".into());
            }
        }),
        (Some(Err(e)), Some(tc)) if e == "Timeout(Create)" => w(|w| {
            let last = env.iter().rev().find(|c| c.site == Site::Create);
            match (eff.1.ms(), last) {
                (Some(d), Some(c)) => {
                    // finished in time = answered immediately or its gate fired by the deadline
                    let finished_at = if c.gate.is_none() && c.completed { Some(c.start) } else { c.fired_at };
                    if let Some(tf) = finished_at {
                        if tf <= c.start + d && tf < tc {
                            c10(w, "create-timeout-although-finished", format!("Timeout(Create) at t={}ms although create finished at t={}ms, deadline {}ms", tc, tf, c.start + d));
                        }
                    }
                    if tc < c.start + d {
                        c10(w, "create-timeout-early", format!("Timeout(Create) at t={}ms, deadline {}ms", tc, c.start + d));
                    }
                }
                _ => c10(w, "create-timeout-unexplained", format!("Timeout(Create) with create timeout {:?} and create calls {:?}", eff.1, env)),
            }
        }),
        (Some(Err(e)), _) if e == "Timeout(Recycle)" => w(|w| c10(w, "recycle-timeout-surfaced", "get() returned Timeout(Recycle)".into())),
        (Some(Err(e)), _) if e == "Closed" => w(|w| {
            if !closed {
                c10(w, "closed-on-open-pool", "Closed on a pool that was never closed".into());
            }
        }),
        (Some(Ok(id)), Some(tc)) => w(|w| {
            let id = *id;
            if closed {
                c10(w, "object-from-closed-pool", format!("closed pool handed out object {}", id));
            }
            if no_rt && eff.0.nonzero() {
                c10(w, "no-runtime-wait-ignored", "wait timeout without runtime was silently ignored".into());
            }
            // the recycle timeout (without runtime) must not silently discard objects
            if no_rt && eff.2.nonzero() && alive_now < objs_before + usize::from(w.objs[id].handouts == 1 && env.iter().any(|e| e.site == Site::Create)) {
                c10(w, "no-runtime-recycle-discards", "recycle timeout without runtime: idle object silently destroyed and replaced".into());
            }
            if no_rt && eff.1.nonzero() && env.iter().any(|e| e.site == Site::Create) {
                c10(w, "no-runtime-create-ignored", "create timeout without runtime was silently ignored".into());
            }
            // "a create timeout yields Timeout(Create)": a call whose
            // Manager::create never finished cannot end with an object
            if let (Some(d), false) = (eff.1.ms(), no_rt) {
                if let Some(c) = env.iter().rev().find(|c| c.site == Site::Create) {
                    let finished = (c.gate.is_none() && c.completed) || c.fired_at.is_some();
                    if !finished && tc >= c.start + d {
                        c10(w, "create-timeout-swallowed", format!("get() returned object {} at t={}ms although its Manager::create call (started t={}ms, create timeout {:?}) had not finished when its deadline passed", id, tc, c.start, eff.1));
                    }
                }
            }
            if let Some(d) = wait_deadline {
                // (after a late poll both the grant and the deadline were ready: either answer)
                if !deferred && !slot_in_time && slot_free_at.map(|t| t > d).unwrap_or(true) && tc > d && !env_started {
                    c10(w, "object-after-wait-deadline", "object obtained although no slot became free".into());
                }
            }
        }),
        (None, _) => {
            // still pending at the horizon: must be justified
            let in_env = w(|w| w.gets[gi].in_env);
            w(|w| match in_env {
                None => {
                    // waiting for a slot
                    if slot_free_at.is_some() && !closed && advanced_since_pending {
                        c10(w, "stuck-with-free-slot", format!("get() still waits at t={}ms although a slot has been free since t={:?}ms", now, slot_free_at));
                    }
                    if closed {
                        c10(w, "stuck-on-closed-pool", "get() waits on a closed pool".into());
                    }
                    if let (Some(d), false) = (wait_deadline, no_rt) {
                        if now > d && advanced_since_pending {
                            c10(w, "wait-deadline-ignored", format!("get() still waits at t={}ms, wait deadline {}ms", now, d));
                        }
                    }
                }
                Some(site) => {
                    let c = env.iter().rev().find(|c| c.site == site);
                    let tmo = if site == Site::Create { eff.1 } else { eff.2 };
                    if let (Some(d), Some(c), false) = (tmo.ms(), c, no_rt) {
                        if now > c.start + d && advanced_since_pending {
                            c10(w, "deadline-ignored", format!("get() still inside {:?} at t={}ms, deadline {}ms", site, now, c.start + d));
                        }
                    }
                }
            });
        }
        _ => {}
    }
    // Without a runtime every non-zero timeout that was needed must surface
    if no_rt && needs_rt {
        if let Some(Ok(_)) = &result {
        } else if let Some(Err(e)) = &result {
            if e != "NoRuntimeSpecified" && eff.0.nonzero() {
                w(|w| c10(w, "no-runtime-wait-wrong-error", format!("wait timeout without runtime produced {} instead of NoRuntimeSpecified", e)));
            }
        }
    }
    // objects whose recycling was cut off must never be handed out: done by the
    // world (rejected flag); tag for C10 as well
    w(|w| {
        let cut: Vec<String> = w.viol.iter().filter(|v| v.property == "C04" && v.key.starts_with("handout-")).map(|v| v.msg.clone()).collect();
        for m in cut {
            c10(w, "handout-after-recycle-timeout", m);
        }
    });
    // wind down: abandon, return, probe capacity (slot released after timeouts)
    if let Some((g0, mut t0)) = stuck.take() {
        w(|w| w.seq_actor = Some(2));
        t0.cancel();
        w(|w| {
            w.seq_actor = None;
            w.get_cancelled(g0);
            w.end_op(2);
        });
    }
    if !task.done() {
        w(|w| w.seq_actor = Some(who));
        task.cancel();
        w(|w| {
            w.seq_actor = None;
            w.get_cancelled(gi);
            w.end_op(who);
        });
    }
    let only_c10_clean = w(|w| !w.viol.iter().any(|v| v.property == "C10"));
    if only_c10_clean {
        let whos: Vec<usize> = w(|w| w.hands.keys().copied().collect());
        for wh in whos {
            w(|w| w.seq_actor = Some(wh));
            while op_release(wh) {}
            w(|w| w.seq_actor = None);
        }
        let saved = w(|w| std::mem::take(&mut w.viol));
        probe(&pool);
        w(|w| {
            let new: Vec<Violation> = std::mem::take(&mut w.viol);
            w.viol = saved;
            for v in new {
                // capacity lost after a timeout / error path: C10's "slot
                // released" clause, and C02's "whatever mixture of ... timed-out
                // ... get() calls a pool has served"
                w.violate(&["C10", "C02"], &format!("probe:{}", v.key), v.msg);
            }
        });
    }
    let obs = {
        let mut h = std::collections::hash_map::DefaultHasher::new();
        (runtime.is_some(), pool_level, call_level, sc.state, &result, done_at).hash(&mut h);
        h.finish()
    };
    crate::conc::drop_handle(0, pool);
    violations_done(obs)
}

// ---------------------------------------------------------------------
// C03 (ii): abandonment by an enclosing deadline

#[derive(Clone, Debug)]
pub struct EnclosingScenario {
    pub state: PState,
    pub hooks: bool,
    pub max_events: usize,
}

/// `tokio::time::timeout(10ms, pool.get())` on a paused clock: the explorer
/// orders clock advances, gate completions and the holder's return; when the
/// outer deadline fires the get() future is dropped by tokio at whichever
/// await point it is suspended in. Afterwards: exact status(), capacity probe,
/// destructor / detach ledger (all tagged C03).
pub fn run_enclosing(sc: &EnclosingScenario) -> Outcome {
    sched::begin();
    let rt = tokio::runtime::Builder::new_current_thread().enable_time().start_paused(true).build().expect("tokio runtime");
    let out = rt.block_on(run_enclosing_inner(sc));
    drop(rt);
    sched::end();
    out
}

async fn run_enclosing_inner(sc: &EnclosingScenario) -> Outcome {
    let mut cfg = PoolCfg::simple(1);
    let menu = vec![Out::PendOk, Out::Ok, Out::Never, Out::PendErr];
    cfg.create_menu = menu.clone();
    cfg.recycle_menu = menu.clone();
    if sc.hooks {
        let h = HookCfg { asynchronous: true, menu: menu.clone() };
        cfg.pre_recycle = vec![h.clone()];
        cfg.post_recycle = vec![h.clone()];
        cfg.post_create = vec![h];
    }
    cfg.auto_gates = false;
    init_world(cfg, &["C03"]);
    let pool = build_pool_with(Timeouts::new(), Some(Runtime::Tokio1)).expect("build");
    w(|w| w.handles = 1);
    w(|w| {
        w.forced_ok = true;
        w.seq_actor = Some(PROBE);
    });
    let nb = Timeouts { wait: Some(Duration::ZERO), create: None, recycle: None };
    let mut holder = false;
    if matches!(sc.state, PState::Idle | PState::Exhausted) {
        let gi = w(|w| w.begin_get(PROBE, true));
        let p = pool.clone();
        let mut t = Task::new(async move { p.timeout_get(&nb).await });
        match t.poll() {
            Some(r) => finish_get(PROBE, gi, r),
            None => panic!("setup get pending"),
        }
        if sc.state == PState::Idle {
            while op_release(PROBE) {}
        } else {
            holder = true;
        }
    }
    w(|w| {
        w.forced_ok = false;
        w.seq_actor = None;
    });
    let who = 1usize;
    let gi = w(|w| w.begin_get(who, false));
    let p = pool.clone();
    let mut task: Task<Option<Result<Object<Mgr>, PoolError<MErr>>>> = Task::new(async move { tokio::time::timeout(Duration::from_millis(T_MS), p.get()).await.ok() });
    let mut now = 0u64;
    let mut first = true;
    let mut events = 0usize;
    let mut outcome: Option<String> = None;
    loop {
        if task.woken() || first {
            first = false;
            w(|w| w.seq_actor = Some(who));
            let r = catch_unwind(AssertUnwindSafe(|| task.poll()));
            w(|w| w.seq_actor = None);
            match r {
                Err(p) => {
                    let m = explorer::panic_msg(&p);
                    w(|w| w.violate(&["C03"], "panic", format!("get() under an enclosing deadline panicked: {}", m)));
                    task.cancel();
                    w(|w| w.end_op(who));
                    outcome = Some("panic".into());
                }
                Ok(Some(None)) => {
                    // the enclosing deadline fired: tokio dropped the get() future
                    trace!("t={}ms enclosing deadline fired; get() abandoned", now);
                    if now < T_MS {
                        w(|w| w.violate(&["MACHINERY"], "clock", "enclosing deadline fired early".into()));
                    }
                    w(|w| {
                        w.get_cancelled(gi);
                        w.end_op(who);
                    });
                    outcome = Some("abandoned".into());
                }
                Ok(Some(Some(r))) => {
                    outcome = Some(if r.is_ok() { "object".into() } else { "error".into() });
                    w(|w| w.seq_actor = Some(who));
                    finish_get(who, gi, r);
                    w(|w| w.seq_actor = None);
                }
                Ok(None) => {}
            }
        }
        if outcome.is_some() || events >= sc.max_events || !w(|w| w.viol.is_empty()) {
            break;
        }
        let mut opts: Vec<u8> = vec![0, 1];
        if holder {
            opts.push(2);
        }
        let gates: Vec<usize> = sched::pending_gates().into_iter().filter(|(_, l)| l != "never").map(|(g, _)| g).collect();
        for i in 0..gates.len() {
            opts.push(3 + i as u8);
        }
        let k = choose_free(opts.len());
        explorer::count_step();
        events += 1;
        match opts[k] {
            0 | 1 => {
                let d = if opts[k] == 0 { STEP_SMALL } else { STEP_BIG };
                now += d;
                trace!("advance to t={}ms", now);
                tokio::time::advance(Duration::from_millis(d)).await;
            }
            2 => {
                trace!("t={}ms holder returns its object", now);
                w(|w| w.seq_actor = Some(PROBE));
                while op_release(PROBE) {}
                w(|w| w.seq_actor = None);
                holder = false;
            }
            g => {
                let gid = gates[(g - 3) as usize];
                trace!("t={}ms gate {} completes", now, gid);
                sched::fire_gate(gid);
            }
        }
        let mut h = std::collections::hash_map::DefaultHasher::new();
        (now, task.woken(), holder, pool.verif_snapshot(), w(|w| w.env_log.len())).hash(&mut h);
        note_state(h.finish());
    }
    if !task.done() {
        w(|w| w.seq_actor = Some(who));
        task.cancel();
        w(|w| {
            w.seq_actor = None;
            w.get_cancelled(gi);
            w.end_op(who);
        });
    }
    // the pool must be as if the call had never been made
    if w(|w| w.viol.is_empty()) {
        let st = pool.status();
        w(|w| {
            crate::conc::check_plausible(w, &st, "after the enclosing deadline");
            crate::conc::check_exact(w, &st, 0, "after the abandoned call");
        });
    }
    if w(|w| w.viol.is_empty()) {
        let whos: Vec<usize> = w(|w| w.hands.keys().copied().collect());
        for wh in whos {
            w(|w| w.seq_actor = Some(wh));
            while op_release(wh) {}
            w(|w| w.seq_actor = None);
        }
        probe(&pool);
    }
    let obs = {
        let mut h = std::collections::hash_map::DefaultHasher::new();
        (sc.state, sc.hooks, &outcome, now).hash(&mut h);
        w(|w| {
            for o in &w.objs {
                (o.alive, o.detach, o.handouts).hash(&mut h);
            }
        });
        h.finish()
    };
    if w(|w| w.viol.is_empty()) {
        crate::conc::drop_handle(0, pool);
        w(|w| w.final_ledger(true));
    } else {
        let saved = w(|w| w.viol.clone());
        crate::conc::drop_handle(0, pool);
        w(|w| w.viol = saved);
    }
    let mut world = drop_world().unwrap();
    let keep = std::mem::take(&mut world.keep);
    let hands = std::mem::take(&mut world.hands);
    let violations: Vec<Violation> = std::mem::take(&mut world.viol);
    drop(world);
    drop(hands);
    drop(keep);
    Outcome { obs, violations }
}

// ---------------------------------------------------------------------
// unmanaged pool: single timeout

use deadpool::unmanaged;

#[derive(Clone, Debug)]
pub struct UTimeScenario {
    pub with_runtime: bool,
    pub max_events: usize,
}

pub fn run_utime(sc: &UTimeScenario) -> Outcome {
    sched::begin();
    let rt = tokio::runtime::Builder::new_current_thread().enable_time().start_paused(true).build().expect("tokio runtime");
    let out = rt.block_on(run_uinner(sc));
    drop(rt);
    sched::end();
    out
}

async fn run_uinner(sc: &UTimeScenario) -> Outcome {
    let mut viol: Vec<Violation> = Vec::new();
    let mut bad = |key: &str, msg: String| {
        if !viol.iter().any(|v| v.key == key) {
            viol.push(Violation { property: "C10".into(), key: format!("unmanaged:{}", key), msg });
        }
    };
    let runtime = if sc.with_runtime { Some(Runtime::Tokio1) } else { None };
    let pool_tmo = TMOS[choose_free(4)];
    let per_call = if choose_free(2) == 1 { Some(TMOS[choose_free(4)]) } else { None };
    let eff = per_call.unwrap_or(pool_tmo);
    // 0 = one object available, 1 = empty, 2 = closed
    let state = choose_free(3);
    let cfg = unmanaged::PoolConfig { max_size: 1, timeout: pool_tmo.dur(), runtime };
    let pool: unmanaged::Pool<u32> = unmanaged::Pool::from_config(&cfg);
    if state == 0 {
        pool.try_add(7).expect("setup add");
    }
    if state == 2 {
        pool.close();
    }
    trace!("unmanaged runtime {:?} pool timeout {:?} per-call {:?} state {}", runtime, pool_tmo, per_call, state);
    let p = pool.clone();
    // the get family or the remove family (same rules for the single timeout)
    let remove = choose_free(2) == 1;
    trace!("entry point: {}", if remove { "remove / timeout_remove" } else { "get / timeout_get" });
    let mut task: Task<Result<u32, unmanaged::PoolError>> = Task::new(async move {
        match (per_call, remove) {
            (Some(t), false) => p.timeout_get(t.dur()).await.map(|o| *o),
            (None, false) => p.get().await.map(|o| *o),
            (Some(t), true) => p.timeout_remove(t.dur()).await,
            (None, true) => p.remove().await,
        }
    });
    let mut now = 0u64;
    let mut avail_at: Option<u64> = if state == 0 { Some(0) } else { None };
    let mut result: Option<Result<u32, String>> = None;
    let mut done_at = None;
    let mut first = true;
    let mut events = 0;
    let mut advanced_since_pending = false;
    loop {
        if task.woken() || first {
            match catch_unwind(AssertUnwindSafe(|| task.poll())) {
                Err(p) => {
                    bad("panic", format!("get panicked: {}", explorer::panic_msg(&p)));
                    task.cancel();
                    result = Some(Err("panic".into()));
                    done_at = Some(now);
                }
                Ok(Some(r)) => {
                    result = Some(r.map_err(|e| format!("{:?}", e)));
                    done_at = Some(now);
                }
                Ok(None) => {
                    if eff == Tmo::Zero {
                        bad("zero-timeout-pending", "get with a zero timeout returned Pending".into());
                    }
                    if first && runtime.is_none() && eff.nonzero() {
                        bad("no-runtime-pending", "timeout without runtime: get went to sleep".into());
                    }
                    advanced_since_pending = false;
                }
            }
            first = false;
        }
        if result.is_some() || events >= sc.max_events {
            break;
        }
        let mut opts = vec![0u8, 1];
        if state == 1 && avail_at.is_none() {
            opts.push(2);
        }
        let k = choose_free(opts.len());
        explorer::count_step();
        events += 1;
        match opts[k] {
            0 | 1 => {
                let d = if opts[k] == 0 { STEP_SMALL } else { STEP_BIG };
                now += d;
                tokio::time::advance(Duration::from_millis(d)).await;
                advanced_since_pending = true;
            }
            _ => {
                trace!("t={}ms an object is added", now);
                pool.try_add(9).expect("add into empty pool");
                avail_at = Some(now);
            }
        }
        let mut h = std::collections::hash_map::DefaultHasher::new();
        (now, task.woken(), avail_at, runtime.is_some(), pool_tmo, per_call, state).hash(&mut h);
        note_state(h.finish());
    }
    let closed = state == 2;
    let in_time = match (avail_at, eff.ms()) {
        (Some(_), None) => true,
        (Some(t), Some(d)) => t <= d,
        _ => false,
    };
    match (&result, done_at) {
        (Some(Ok(_)), _) => {
            if closed {
                bad("object-from-closed-pool", "closed pool handed out an object".into());
            }
            if runtime.is_none() && eff.nonzero() {
                bad("no-runtime-ignored", "timeout without runtime silently ignored".into());
            }
            if avail_at.is_none() {
                bad("object-from-empty-pool", "object obtained from an empty pool".into());
            }
        }
        (Some(Err(e)), Some(tc)) if e == "Timeout" => match eff.ms() {
            None => bad("timeout-without-deadline", "Timeout without a timeout".into()),
            Some(d) => {
                if in_time && !closed {
                    bad("timeout-although-available", format!("Timeout at t={}ms although an object was available at t={:?}ms (deadline {}ms)", tc, avail_at, d));
                }
                if tc < d {
                    bad("timeout-early", format!("Timeout at t={}ms before the deadline {}ms", tc, d));
                }
                if runtime.is_none() && d > 0 {
                    bad("no-runtime-timeout", "non-zero timeout without runtime produced Timeout instead of NoRuntimeSpecified".into());
                }
            }
        },
        (Some(Err(e)), _) if e == "Closed" => {
            if !closed {
                bad("closed-on-open-pool", "Closed on an open pool".into());
            }
            if runtime.is_none() && eff.nonzero() {
                // documented order: NoRuntimeSpecified is reported for the unusable timeout
            }
        }
        (Some(Err(e)), _) if e == "NoRuntimeSpecified" => {
            if !(runtime.is_none() && eff.nonzero()) {
                bad("spurious-no-runtime", format!("NoRuntimeSpecified with runtime {:?} timeout {:?}", runtime, eff));
            }
        }
        (None, _) => {
            if avail_at.is_some() && advanced_since_pending && !closed {
                bad("stuck-with-object-available", "get still waits although an object is available".into());
            }
            if closed {
                bad("stuck-on-closed-pool", "get waits on a closed pool".into());
            }
            if let (Some(d), true) = (eff.ms(), runtime.is_some()) {
                if now > d && advanced_since_pending {
                    bad("deadline-ignored", format!("get still waits at t={}ms, deadline {}ms", now, d));
                }
            }
        }
        _ => {}
    }
    task.cancel();
    // the pool must still work: capacity 1
    if !closed {
        let st = pool.status();
        let held = 0;
        let _ = held;
        if st.size > 1 {
            bad("size-over-max", format!("status {:?}", st));
        }
        let waiting = st.waiting;
        if waiting != 0 {
            bad("waiting-not-restored", format!("status().waiting is {} after the call ended", waiting));
        }
    }
    let obs = {
        let mut h = std::collections::hash_map::DefaultHasher::new();
        (runtime.is_some(), pool_tmo, per_call, state, &result, done_at).hash(&mut h);
        h.finish()
    };
    Outcome { obs, violations: viol }
}

// ---------------------------------------------------------------------
// C10: a zero wait timeout "never waits for a slot" - and never fails while
// one is free, however long the calling task has been running

/// Several hundred zero-wait gets in a row inside ONE poll of a tokio task
/// (tokio's cooperative budget of 128 operations per poll runs out on the
/// way): each must succeed on the idle pool; then the same with the only
/// object checked out: each must fail at once with Timeout(Wait).
pub fn run_zero_wait_burst() -> Outcome {
    sched::begin();
    let rt = tokio::runtime::Builder::new_current_thread().enable_time().start_paused(true).build().expect("tokio runtime");
    let variant = choose_free(4);
    let out = rt.block_on(async move {
        let mut cfg = PoolCfg::simple(1);
        cfg.auto_gates = false;
        init_world(cfg, &["C10"]);
        w(|w| {
            w.allow_timeouts = true;
            w.forced_ok = true;
            w.seq_actor = Some(PROBE);
        });
        let zero = Some(Duration::ZERO);
        // zero wait per call / at pool level, with or without the other timeouts
        let (pool_level, per_call) = match variant {
            0 => (Timeouts::new(), Some(Timeouts { wait: zero, create: None, recycle: None })),
            1 => (Timeouts { wait: zero, create: None, recycle: None }, None),
            2 => (Timeouts { wait: zero, create: Some(Duration::from_secs(5)), recycle: Some(Duration::from_secs(5)) }, None),
            _ => (Timeouts { wait: Some(Duration::from_secs(5)), create: None, recycle: None }, Some(Timeouts { wait: zero, create: Some(Duration::from_secs(5)), recycle: None })),
        };
        let pool = build_pool_with(pool_level, Some(Runtime::Tokio1)).expect("build with runtime");
        w(|w| w.handles = 1);
        let mut held = None;
        for round in 0..300usize {
            let gi = w(|w| w.begin_get(PROBE, true));
            let r = match &per_call {
                Some(t) => pool.timeout_get(t).await,
                None => pool.get().await,
            };
            let ok = r.is_ok();
            let desc = format!("{:?}", r.as_ref().map(|o| o.id).map_err(|e| format!("{:?}", e)));
            finish_get(PROBE, gi, r);
            if !ok {
                w(|w| c10(w, "zero-wait-refused-on-idle-pool", format!("zero-wait get() number {} in a row on an idle pool (variant {}) returned {}", round + 1, variant, desc)));
                break;
            }
            if round == 299 {
                held = w(|w| w.hands.get_mut(&PROBE).and_then(|v| v.pop()));
            } else {
                while op_release(PROBE) {}
            }
        }
        if held.is_some() {
            for round in 0..300usize {
                let gi = w(|w| w.begin_get(PROBE, true));
                let r = match &per_call {
                    Some(t) => pool.timeout_get(t).await,
                    None => pool.get().await,
                };
                let good = matches!(r, Err(PoolError::Timeout(deadpool::managed::TimeoutType::Wait)));
                let desc = format!("{:?}", r.as_ref().map(|o| o.id).map_err(|e| format!("{:?}", e)));
                finish_get(PROBE, gi, r);
                if !good {
                    w(|w| c10(w, "zero-wait-on-exhausted-pool", format!("zero-wait get() number {} in a row on an exhausted pool (variant {}) returned {}", round + 1, variant, desc)));
                    break;
                }
            }
        }
        if let Some(o) = held {
            w(|w| w.hands.entry(PROBE).or_default().push(o));
        }
        while op_release(PROBE) {}
        w(|w| {
            w.forced_ok = false;
            w.seq_actor = None;
        });
        crate::conc::drop_handle(0, pool);
        let mut world = drop_world().unwrap();
        let keep = std::mem::take(&mut world.keep);
        let hands = std::mem::take(&mut world.hands);
        let violations: Vec<Violation> = std::mem::take(&mut world.viol);
        drop(world);
        drop(hands);
        drop(keep);
        Outcome { obs: variant as u64, violations }
    });
    drop(rt);
    sched::end();
    out
}
