//! Ground truth, actors and oracles for the unmanaged pool (C05, C12).

use std::cell::RefCell;
use std::collections::BTreeMap;
use std::hash::{Hash, Hasher};
use std::panic::{catch_unwind, AssertUnwindSafe};

use deadpool::unmanaged::{Object, Pool, PoolConfig, PoolError};
use deadpool::Status;
use dpmc::explorer::{self, choose, note_state, Cost, Outcome, Violation};
use dpmc::sched::{self, ActorStatus, RunCfg, Task, Verdict};
use dpmc::trace;

#[derive(Clone, Copy, PartialEq, Eq, Debug, Hash)]
pub enum ULoc {
    /// Caller owns it and has not handed it to the pool yet.
    Fresh,
    /// Inside an add()/try_add() call of `who`.
    Adding(usize),
    Queue,
    Held(usize),
    /// Object::take is in progress: the pool may or may not have let go of it yet.
    Taking(usize),
    /// Handed back to a caller (remove, take, refused add).
    Back,
}

#[derive(Debug)]
pub struct URec {
    pub alive: bool,
    pub loc: ULoc,
}

#[derive(Clone, Copy, PartialEq, Eq, Debug, Hash)]
pub enum UKind {
    Get,
    Add,
    /// An opaque call that takes an object out (try_remove): while it runs one
    /// queued object may already have left.
    Remove,
    Close,
    Other,
}

#[derive(Clone, Debug)]
pub struct UCall {
    pub kind: UKind,
    pub min_in: usize,
    pub max_in: usize,
    pub after_close: bool,
    #[allow(dead_code)]
    pub obj: Option<usize>,
}

pub struct UWorld {
    pub ms: usize,
    pub objs: Vec<URec>,
    pub viol: Vec<Violation>,
    pub hands: BTreeMap<usize, Vec<Object<UObj>>>,
    pub back: Vec<UObj>,
    pub close_begun: bool,
    pub close_returned: bool,
    pub calls: BTreeMap<usize, UCall>,
    pub seq_actor: Option<usize>,
    pub pool_dropping: bool,
    pub results: Vec<(usize, String)>,
}

thread_local! {
    static U: RefCell<Option<UWorld>> = const { RefCell::new(None) };
}

pub fn u<R>(f: impl FnOnce(&mut UWorld) -> R) -> R {
    U.with(|c| f(c.borrow_mut().as_mut().expect("uworld not initialised")))
}

fn try_u<R>(f: impl FnOnce(&mut UWorld) -> R) -> Option<R> {
    U.try_with(|c| c.try_borrow_mut().ok().and_then(|mut b| b.as_mut().map(f))).ok().flatten()
}

#[derive(Debug)]
pub struct UObj {
    pub id: usize,
}

impl Drop for UObj {
    fn drop(&mut self) {
        let id = self.id;
        let _ = try_u(|w| {
            let r = &mut w.objs[id];
            r.alive = false;
            let loc = r.loc;
            if !matches!(loc, ULoc::Back | ULoc::Fresh | ULoc::Adding(_) | ULoc::Taking(_)) && !w.close_begun && !w.pool_dropping {
                w.violate(&["C05"], "object-dropped-while-open", format!("object {} ({:?}) was destroyed while the pool is open", id, loc));
            }
        });
        trace!("  object {} destroyed", id);
    }
}

impl UWorld {
    pub fn violate(&mut self, props: &[&str], key: &str, msg: String) {
        for p in props {
            if !self.viol.iter().any(|v| v.property == *p && v.key == key) {
                self.viol.push(Violation { property: p.to_string(), key: key.to_string(), msg: msg.clone() });
            }
        }
    }
    pub fn new_obj(&mut self) -> UObj {
        let id = self.objs.len();
        self.objs.push(URec { alive: true, loc: ULoc::Fresh });
        UObj { id }
    }
    pub fn in_pool(&self) -> usize {
        self.objs.iter().filter(|o| o.alive && matches!(o.loc, ULoc::Queue | ULoc::Held(_))).count()
    }
    /// Objects whose membership is ambiguous right now (add or take in progress).
    pub fn adding(&self) -> usize {
        self.objs.iter().filter(|o| o.alive && matches!(o.loc, ULoc::Adding(_) | ULoc::Taking(_))).count()
    }
    pub fn queued(&self) -> usize {
        self.objs.iter().filter(|o| o.alive && o.loc == ULoc::Queue).count()
    }
    fn touch(&mut self) {
        let n = self.in_pool();
        let a = self.adding();
        let leaving = self.calls.values().filter(|c| c.kind == UKind::Remove).count();
        let own_adding: Vec<bool> = self.calls.values().map(|c| c.obj.map_or(false, |id| self.objs[id].alive && matches!(self.objs[id].loc, ULoc::Adding(_)))).collect();
        for (c, own) in self.calls.values_mut().zip(own_adding) {
            c.min_in = c.min_in.min(n.saturating_sub(leaving));
            // the object this very call is trying to add does not occupy a
            // slot as far as "was the pool full during the call" goes
            c.max_in = c.max_in.max(n + a - usize::from(own));
        }
        if n > self.ms {
            let ms = self.ms;
            self.violate(&["C05"], "over-max-size", format!("the pool holds {} objects, max_size {}", n, ms));
        }
    }
    pub fn begin(&mut self, who: usize, kind: UKind, obj: Option<usize>) {
        let n = self.in_pool();
        let a = self.adding();
        let leaving = self.calls.values().filter(|c| c.kind == UKind::Remove).count() + usize::from(kind == UKind::Remove);
        self.calls.insert(who, UCall { kind, min_in: n.saturating_sub(leaving), max_in: n + a, after_close: self.close_returned, obj });
        if let Some(id) = obj {
            self.objs[id].loc = ULoc::Adding(who);
        }
        self.touch();
    }
    pub fn end(&mut self, who: usize) -> Option<UCall> {
        self.calls.remove(&who)
    }
    pub fn handout(&mut self, who: usize, id: usize) {
        let r = &self.objs[id];
        let (alive, loc) = (r.alive, r.loc);
        if !alive {
            self.violate(&["C05"], "handout-destroyed", format!("get returned object {} which was already destroyed", id));
        }
        if !matches!(loc, ULoc::Queue | ULoc::Adding(_)) {
            self.violate(&["C05"], "handout-duplicate", format!("get returned object {} which is {:?}", id, loc));
        }
        let after_close = self.calls.get(&who).map(|c| c.after_close).unwrap_or(false);
        if after_close {
            self.violate(&["C12"], "object-after-close", format!("a get started after close() returned yielded object {}", id));
        }
        self.objs[id].loc = ULoc::Held(who);
        self.touch();
    }
    pub fn get_err(&mut self, who: usize, e: &PoolError, nonblocking: bool) {
        let after_close = self.calls.get(&who).map(|c| c.after_close).unwrap_or(false);
        if after_close && !matches!(e, PoolError::Closed) {
            self.violate(&["C12"], "wrong-error-after-close", format!("a call started after close() returned failed with {:?} instead of Closed", e));
        }
        match e {
            PoolError::Timeout => {
                if !nonblocking {
                    self.violate(&["C12", "C05"], "unexpected-timeout", "a get without timeout returned Timeout".into());
                }
            }
            PoolError::Closed => {
                if !self.close_begun {
                    self.violate(&["C05", "C12"], "closed-without-close", "get returned Closed on a pool that was never closed".into());
                }
            }
            PoolError::NoRuntimeSpecified => self.violate(&["C12"], "unexpected-no-runtime", "get without timeout returned NoRuntimeSpecified".into()),
        }
        let _ = who;
    }
}

#[derive(Clone, Debug, PartialEq, Eq)]
pub enum UOp {
    Get { cancel: bool },
    TryGet,
    TimeoutGet0,
    /// `timeout_remove(Some(0))`
    TimeoutRemove0,
    Add { cancel: bool },
    TryAdd,
    Remove,
    TryRemove,
    Take,
    Release,
    Close,
    Status,
}

#[derive(Clone, Debug, PartialEq, Eq)]
pub enum UBuild {
    New(usize),
    FromConfig(usize),
    FromVec(usize),
}

#[derive(Clone, Debug)]
pub struct UScenario {
    pub build: UBuild,
    pub actors: Vec<Vec<UOp>>,
    pub free_boundaries: bool,
    pub cancels: bool,
}

fn build(b: &UBuild) -> (Pool<UObj>, usize) {
    match b {
        UBuild::New(n) => (Pool::new(*n), *n),
        UBuild::FromConfig(n) => (Pool::from_config(&PoolConfig::new(*n)), *n),
        UBuild::FromVec(n) => {
            // a Vec grown by push, with spare capacity (the limit is the number
            // of elements, whatever the allocation)
            let mut v: Vec<UObj> = Vec::with_capacity(*n + 3);
            for _ in 0..*n {
                let o = u(|w| w.new_obj());
                u(|w| w.objs[o.id].loc = ULoc::Queue);
                v.push(o);
            }
            (Pool::from(v), *n)
        }
    }
}

fn finish_get(who: usize, r: Result<Object<UObj>, PoolError>, nonblocking: bool, take: bool) {
    match r {
        Ok(o) => {
            let id = o.id;
            trace!("  caller {} get -> object {}", who, id);
            u(|w| {
                w.handout(who, id);
                w.results.push((who, format!("obj{}", id)));
            });
            if take {
                u(|w| w.objs[id].loc = ULoc::Taking(who));
                let inner = Object::take(o);
                u(|w| {
                    w.objs[id].loc = ULoc::Back;
                    w.back.push(inner);
                    w.touch();
                    w.end(who);
                });
            } else {
                u(|w| {
                    w.hands.entry(who).or_default().push(o);
                    w.end(who);
                });
            }
        }
        Err(e) => {
            trace!("  caller {} get -> {:?}", who, e);
            u(|w| {
                w.get_err(who, &e, nonblocking);
                w.results.push((who, format!("{:?}", e)));
                w.end(who);
            });
        }
    }
}

/// Result of the pool's own `remove()` / `timeout_remove()` (an opaque call:
/// which object it took is only known afterwards).
fn finish_remove(who: usize, r: Result<UObj, PoolError>, nonblocking: bool) {
    match r {
        Ok(o) => {
            let id = o.id;
            trace!("  caller {} remove -> object {}", who, id);
            u(|w| {
                w.handout(who, id);
                w.objs[id].loc = ULoc::Back;
                w.back.push(o);
                w.touch();
                w.results.push((who, format!("removed{}", id)));
                w.end(who);
            });
        }
        Err(e) => {
            trace!("  caller {} remove -> {:?}", who, e);
            u(|w| {
                w.get_err(who, &e, nonblocking);
                w.results.push((who, format!("{:?}", e)));
                w.end(who);
            });
        }
    }
}

fn finish_add(who: usize, id: usize, r: Result<(), (UObj, PoolError)>, nonblocking: bool) {
    match r {
        Ok(()) => {
            trace!("  caller {} add(object {}) -> ok", who, id);
            u(|w| {
                if !w.objs[id].alive && !w.close_begun {
                    w.violate(&["C05"], "accepted-object-destroyed", format!("add accepted object {} but it was destroyed", id));
                }
                // a concurrent getter may already hold it
                if matches!(w.objs[id].loc, ULoc::Adding(_)) {
                    w.objs[id].loc = ULoc::Queue;
                }
                w.touch();
                let c = w.end(who).unwrap();
                if c.after_close {
                    w.violate(&["C12"], "add-after-close-accepted", format!("add of object {} started after close() returned was accepted", id));
                }
                if nonblocking && c.min_in >= w.ms {
                    let ms = w.ms;
                    w.violate(&["C05"], "try-add-accepted-when-full", format!("try_add succeeded although the pool held {} objects throughout the call", ms));
                }
                w.results.push((who, "added".into()));
            });
        }
        Err((o, e)) => {
            trace!("  caller {} add(object {}) -> {:?}", who, id, e);
            u(|w| {
                if o.id != id {
                    w.violate(&["C05", "C12"], "add-returned-wrong-object", format!("add handed back object {} instead of {}", o.id, id));
                }
                if matches!(w.objs[id].loc, ULoc::Held(_) | ULoc::Queue) {
                    w.violate(&["C05"], "refused-object-also-pooled", format!("object {} was handed back by add but is also {:?}", id, w.objs[id].loc));
                }
                w.objs[id].loc = ULoc::Back;
                let c = w.end(who).unwrap();
                if c.after_close && !matches!(e, PoolError::Closed) {
                    w.violate(&["C12"], "wrong-error-after-close", format!("an add started after close() returned handed object {} back with {:?} instead of Closed", id, e));
                }
                match e {
                    PoolError::Timeout => {
                        if !nonblocking {
                            w.violate(&["C05"], "add-timeout", "add() returned Timeout".into());
                        } else if c.max_in < w.ms {
                            w.violate(&["C05"], "try-add-refused-when-not-full", format!("try_add reported Timeout although the pool never held more than {} of {} objects during the call", c.max_in, w.ms));
                        }
                    }
                    PoolError::Closed => {
                        if !w.close_begun {
                            w.violate(&["C12"], "closed-without-close", "add returned Closed on a pool that was never closed".into());
                        }
                    }
                    PoolError::NoRuntimeSpecified => w.violate(&["C12"], "unexpected-no-runtime", "add returned NoRuntimeSpecified".into()),
                }
                w.results.push((who, format!("refused:{:?}", e)));
                w.touch();
            });
            u(|w| w.back.push(o));
        }
    }
}

fn guarded(who: usize, what: &str, f: impl FnOnce()) {
    if let Err(p) = catch_unwind(AssertUnwindSafe(f)) {
        let m = explorer::panic_msg(&p);
        trace!("  caller {} {} panicked: {}", who, what, m);
        u(|w| {
            w.violate(&["C12"], &format!("panic-in-{}", what), format!("{} panicked: {}", what, m));
            w.end(who);
        });
    }
}

pub fn u_release(who: usize) -> bool {
    let o = u(|w| w.hands.get_mut(&who).and_then(|v| v.pop()));
    let Some(o) = o else { return false };
    let id = o.id;
    trace!("  caller {} returns object {}", who, id);
    let closed_before = u(|w| {
        w.begin(who, UKind::Other, None);
        w.objs[id].loc = ULoc::Queue;
        w.close_returned
    });
    drop(o);
    u(|w| {
        if closed_before && w.objs[id].alive {
            w.violate(&["C12"], "returned-object-kept-after-close", format!("object {} returned after close() was kept", id));
        }
        w.touch();
        w.end(who);
    });
    true
}

fn exec(pool: &Pool<UObj>, op: &UOp, me: usize) {
    match op {
        UOp::Get { cancel } => {
            u(|w| w.begin(me, UKind::Get, None));
            trace!("  caller {} get()", me);
            match catch_unwind(AssertUnwindSafe(|| sched::block_on(pool.get(), *cancel))) {
                Ok(Ok(r)) => finish_get(me, r, false, false),
                Ok(Err(_)) => {
                    trace!("  caller {} get abandoned", me);
                    u(|w| {
                        w.end(me);
                    })
                }
                Err(p) => u(|w| {
                    w.violate(&["C12"], "panic-in-get", format!("get panicked: {}", explorer::panic_msg(&p)));
                    w.end(me);
                }),
            }
        }
        UOp::TryGet => guarded(me, "try_get", || {
            u(|w| w.begin(me, UKind::Other, None));
            let r = pool.try_get();
            finish_get(me, r, true, false)
        }),
        UOp::TimeoutGet0 => {
            u(|w| w.begin(me, UKind::Other, None));
            match catch_unwind(AssertUnwindSafe(|| sched::block_on(pool.timeout_get(Some(std::time::Duration::ZERO)), false))) {
                Ok(Ok(r)) => finish_get(me, r, true, false),
                Ok(Err(_)) => u(|w| {
                    w.violate(&["C12"], "zero-timeout-get-pending", "timeout_get(0) returned Pending".into());
                    w.end(me);
                }),
                Err(p) => u(|w| {
                    w.violate(&["C12"], "panic-in-timeout_get", format!("timeout_get panicked: {}", explorer::panic_msg(&p)));
                    w.end(me);
                }),
            }
        }
        UOp::TimeoutRemove0 => {
            u(|w| w.begin(me, UKind::Remove, None));
            match catch_unwind(AssertUnwindSafe(|| sched::block_on(pool.timeout_remove(Some(std::time::Duration::ZERO)), false))) {
                Ok(Ok(r)) => finish_remove(me, r, true),
                Ok(Err(_)) => u(|w| {
                    w.violate(&["C12"], "zero-timeout-get-pending", "timeout_remove(0) returned Pending".into());
                    w.end(me);
                }),
                Err(p) => u(|w| {
                    w.violate(&["C12"], "panic-in-timeout_remove", format!("timeout_remove panicked: {}", explorer::panic_msg(&p)));
                    w.end(me);
                }),
            }
        }
        UOp::Remove => {
            u(|w| w.begin(me, UKind::Remove, None));
            trace!("  caller {} remove()", me);
            match catch_unwind(AssertUnwindSafe(|| sched::block_on(pool.remove(), true))) {
                Ok(Ok(r)) => finish_remove(me, r, false),
                Ok(Err(_)) => u(|w| {
                    w.end(me);
                }),
                Err(p) => u(|w| {
                    w.violate(&["C12"], "panic-in-remove", format!("remove panicked: {}", explorer::panic_msg(&p)));
                    w.end(me);
                }),
            }
        }
        UOp::TryRemove => guarded(me, "try_remove", || {
            u(|w| w.begin(me, UKind::Remove, None));
            // ids are only known after the call: wrap the result
            match pool.try_remove() {
                Ok(o) => {
                    let id = o.id;
                    trace!("  caller {} try_remove -> object {}", me, id);
                    u(|w| {
                        w.handout(me, id);
                        w.objs[id].loc = ULoc::Back;
                        w.back.push(o);
                        w.touch();
                        w.results.push((me, format!("removed{}", id)));
                        w.end(me);
                    });
                }
                Err(e) => u(|w| {
                    w.get_err(me, &e, true);
                    w.results.push((me, format!("{:?}", e)));
                    w.end(me);
                }),
            }
        }),
        UOp::Add { cancel } => {
            let o = u(|w| w.new_obj());
            let id = o.id;
            u(|w| w.begin(me, UKind::Add, Some(id)));
            trace!("  caller {} add(object {})", me, id);
            match catch_unwind(AssertUnwindSafe(|| sched::block_on(pool.add(o), *cancel))) {
                Ok(Ok(r)) => finish_add(me, id, r, false),
                Ok(Err(_)) => {
                    // the future owned the object; dropping it destroys the object: caller's choice
                    trace!("  caller {} add abandoned", me);
                    u(|w| {
                        if matches!(w.objs[id].loc, ULoc::Adding(_)) {
                            w.objs[id].loc = ULoc::Back;
                        }
                        w.end(me);
                    })
                }
                Err(p) => u(|w| {
                    w.violate(&["C12"], "panic-in-add", format!("add panicked: {}", explorer::panic_msg(&p)));
                    w.end(me);
                }),
            }
        }
        UOp::TryAdd => guarded(me, "try_add", || {
            let o = u(|w| w.new_obj());
            let id = o.id;
            u(|w| w.begin(me, UKind::Other, Some(id)));
            let r = pool.try_add(o);
            finish_add(me, id, r, true)
        }),
        UOp::Take => guarded(me, "take", || {
            let o = u(|w| w.hands.get_mut(&me).and_then(|v| v.pop()));
            if let Some(o) = o {
                let id = o.id;
                trace!("  caller {} takes object {}", me, id);
                u(|w| {
                    w.begin(me, UKind::Other, None);
                    w.objs[id].loc = ULoc::Taking(me);
                });
                let inner = Object::take(o);
                u(|w| {
                    w.objs[id].loc = ULoc::Back;
                    w.back.push(inner);
                    w.touch();
                    w.end(me);
                });
            }
        }),
        UOp::Release => guarded(me, "release", || {
            u_release(me);
        }),
        UOp::Close => guarded(me, "close", || {
            trace!("  caller {} close()", me);
            // objects sitting in the queue while nothing but close() calls is
            // in progress: this close() must not return before they are gone
            let queued_before: Option<Vec<usize>> = u(|w| {
                let only_closes = w.calls.values().all(|c| c.kind == UKind::Close);
                w.begin(me, UKind::Close, None);
                w.close_begun = true;
                only_closes.then(|| w.objs.iter().enumerate().filter(|(_, o)| o.alive && o.loc == ULoc::Queue).map(|(i, _)| i).collect())
            });
            pool.close();
            let closed_now = pool.is_closed();
            u(|w| {
                if !closed_now {
                    w.violate(&["C12"], "is-closed-false", "is_closed() is false right after close() returned".into());
                }
                if let Some(q) = queued_before {
                    let only_closes = w.calls.iter().all(|(_, c)| c.kind == UKind::Close);
                    let left: Vec<usize> = q.into_iter().filter(|i| w.objs[*i].alive && w.objs[*i].loc == ULoc::Queue).collect();
                    if only_closes && !left.is_empty() {
                        w.violate(&["C12"], "close-returned-with-objects", format!("close() returned while the pool still held objects {:?} (only close() calls were in progress)", left));
                    }
                }
                w.close_returned = true;
                w.end(me);
            });
        }),
        UOp::Status => guarded(me, "status", || {
            let st = pool.status();
            u(|w| plausible(w, &st));
        }),
    }
}

fn plausible(w: &mut UWorld, st: &Status) {
    if st.size > (1 << 32) || st.available > (1 << 32) || st.waiting > (1 << 32) {
        w.violate(&["C05"], "counter-wrapped", format!("status() = {:?}", st));
    }
}

/// Exact status and emptiness checks at rest. `getters` / `adders` = parked callers.
fn at_rest(w: &mut UWorld, st: &Status, getters: usize, adders: usize, at: &str) {
    let size = w.in_pool();
    let q = w.queued();
    if w.close_returned {
        if q > 0 {
            w.violate(&["C12"], "object-in-closed-pool", format!("{}: closed pool still holds {} objects", at, q));
        }
        if getters + adders > 0 {
            w.violate(&["C12"], "caller-stranded-after-close", format!("{}: {} getters and {} adders are still parked after close() returned", at, getters, adders));
        }
        return;
    }
    if st.size != size {
        w.violate(&["C05"], "size-at-rest", format!("{}: status().size {} but the pool holds {} objects", at, st.size, size));
    }
    if st.available != q {
        w.violate(&["C05"], "available-at-rest", format!("{}: status().available {} but {} objects are waiting in the pool", at, st.available, q));
    }
    if st.waiting != getters {
        w.violate(&["C05"], "waiting-at-rest", format!("{}: status().waiting {} but {} callers are blocked in get()", at, st.waiting, getters));
    }
    if st.max_size != w.ms {
        w.violate(&["C05"], "max-size", format!("{}: status().max_size {} configured {}", at, st.max_size, w.ms));
    }
    if getters > 0 && q > 0 {
        w.violate(&["C05"], "getter-stranded", format!("{}: {} callers are blocked in get() although {} objects are available", at, getters, q));
    }
    if adders > 0 && size < w.ms {
        w.violate(&["C05"], "adder-stranded", format!("{}: {} callers are blocked in add() although the pool holds {} of {} objects", at, adders, size, w.ms));
    }
}

fn parked(n_actors: usize) -> Option<(usize, usize)> {
    let mut g = 0;
    let mut a = 0;
    for i in 0..n_actors {
        let me = i + 1;
        let call = u(|w| w.calls.get(&me).cloned());
        match sched::actor_status(i) {
            ActorStatus::Finished | ActorStatus::Boundary => {
                if call.is_some() {
                    return None;
                }
            }
            ActorStatus::ParkedIdle => match call.map(|c| c.kind) {
                Some(UKind::Get) => g += 1,
                Some(UKind::Add) => a += 1,
                _ => return None,
            },
            _ => return None,
        }
    }
    Some((g, a))
}

fn fingerprint(pool: &Pool<UObj>) -> u64 {
    let mut h = std::collections::hash_map::DefaultHasher::new();
    pool.verif_snapshot().hash(&mut h);
    u(|w| {
        for o in &w.objs {
            (o.alive, o.loc).hash(&mut h);
        }
        (w.close_begun, w.close_returned).hash(&mut h);
        for c in w.calls.values() {
            c.kind.hash(&mut h);
        }
    });
    sched::sched_fingerprint().hash(&mut h);
    h.finish()
}

fn init(ms: usize) {
    U.with(|c| {
        *c.borrow_mut() = Some(UWorld {
            ms,
            objs: Vec::new(),
            viol: Vec::new(),
            hands: BTreeMap::new(),
            back: Vec::new(),
            close_begun: false,
            close_returned: false,
            calls: BTreeMap::new(),
            seq_actor: None,
            pool_dropping: false,
            results: Vec::new(),
        })
    });
}

fn finish(pool: Pool<UObj>, mut machinery: Option<String>, verdict_tag: u64) -> Outcome {
    if machinery.is_none() && u(|w| w.viol.is_empty()) {
        let whos: Vec<usize> = u(|w| w.hands.keys().copied().collect());
        for who in whos {
            while u_release(who) {}
        }
        let st = pool.status();
        u(|w| at_rest(w, &st, 0, 0, "after everything was returned"));
        // probe: every queued object can be obtained once, then Timeout / Closed
        if u(|w| w.viol.is_empty()) {
            let q = u(|w| w.queued());
            let closed = u(|w| w.close_returned);
            let mut got = Vec::new();
            for _ in 0..q + 1 {
                u(|w| {
                    w.seq_actor = Some(999);
                    w.begin(999, UKind::Other, None)
                });
                match catch_unwind(AssertUnwindSafe(|| pool.try_get())) {
                    Ok(Ok(o)) => {
                        let id = o.id;
                        u(|w| {
                            w.handout(999, id);
                            w.end(999);
                        });
                        got.push(o);
                    }
                    Ok(Err(e)) => {
                        u(|w| {
                            w.end(999);
                            let ok = if closed { matches!(e, PoolError::Closed) } else { matches!(e, PoolError::Timeout) };
                            if !ok {
                                w.violate(&[if closed { "C12" } else { "C05" }], "probe-wrong-error", format!("try_get on an exhausted pool returned {:?}", e));
                            }
                        });
                        break;
                    }
                    Err(p) => {
                        u(|w| w.violate(&["C12"], "panic-in-try_get", format!("try_get panicked: {}", explorer::panic_msg(&p))));
                        break;
                    }
                }
            }
            u(|w| {
                if !closed && got.len() != q {
                    w.violate(&["C05"], "objects-lost", format!("{} objects are in the pool but {} could be obtained", q, got.len()));
                }
                w.hands.insert(999, std::mem::take(&mut got));
            });
            while u_release(999) {}
            u(|w| w.seq_actor = None);
        }
    }
    if let Some(m) = sched::machinery_error() {
        machinery.get_or_insert(m);
    }
    u(|w| w.pool_dropping = true);
    drop(pool);
    let obs = u(|w| {
        let mut h = std::collections::hash_map::DefaultHasher::new();
        w.results.hash(&mut h);
        for o in &w.objs {
            (o.alive, o.loc).hash(&mut h);
        }
        verdict_tag.hash(&mut h);
        h.finish()
    });
    let mut world = U.with(|c| c.borrow_mut().take()).unwrap();
    let back = std::mem::take(&mut world.back);
    let hands = std::mem::take(&mut world.hands);
    let mut violations = std::mem::take(&mut world.viol);
    drop(world);
    drop(hands);
    drop(back);
    if let Some(m) = machinery {
        violations.push(Violation { property: "MACHINERY".into(), key: "machinery".into(), msg: m });
    }
    sched::end();
    Outcome { obs, violations }
}

pub fn run_uconc(sc: &UScenario) -> Outcome {
    sched::begin();
    sched::set_free_boundaries(sc.free_boundaries);
    init(0);
    let (pool, ms) = build(&sc.build);
    u(|w| w.ms = ms);
    let qid = pool.verif_queue_id();
    let n_actors = sc.actors.len();
    for (i, script) in sc.actors.iter().enumerate() {
        let script = script.clone();
        let p = pool.clone();
        sched::spawn(&format!("A{}", i + 1), move || {
            let me = i + 1;
            for op in &script {
                if sched::winding_down() {
                    break;
                }
                sched::boundary();
                if sched::winding_down() {
                    break;
                }
                exec(&p, op, me);
            }
        });
    }
    let obs_pool = pool.clone();
    let verdict = sched::run(&RunCfg { horizon: 5000, cancels: sc.cancels }, || {
        if sched::machinery_error().is_some() {
            return false;
        }
        if !sched::mutex_held(qid) {
            let st = sched::atomically(|| obs_pool.status());
            let pk = parked(n_actors);
            u(|w| {
                plausible(w, &st);
                if let Some((g, a)) = pk {
                    at_rest(w, &st, g, a, "at rest");
                }
            });
            note_state(fingerprint(&obs_pool));
        }
        u(|w| w.viol.is_empty())
    });
    drop(obs_pool);
    trace!("verdict: {:?}", verdict);
    let mut machinery = sched::machinery_error();
    match &verdict {
        Verdict::Deadlock(d) => u(|w| w.violate(&["C12"], "deadlock", format!("deadlock: {}", d))),
        Verdict::Horizon => u(|w| w.violate(&["C12"], "livelock", "step horizon exceeded".into())),
        _ => {}
    }
    let dead = matches!(verdict, Verdict::Deadlock(_) | Verdict::Horizon);
    if !dead {
        let cascade = !u(|w| w.viol.is_empty()) || machinery.is_some();
        let saved = u(|w| w.viol.clone());
        let ok = sched::wind_down();
        if cascade {
            u(|w| w.viol = saved);
        } else if !ok {
            machinery = Some("wind-down could not finish every actor".into());
        }
    }
    let tag = match verdict {
        Verdict::Done => 0,
        Verdict::Quiescent(_) => 1,
        Verdict::Deadlock(_) => 2,
        Verdict::Horizon => 3,
        Verdict::Stopped => 4,
    };
    if dead {
        machinery = machinery.or(None);
    }
    finish(pool, machinery, tag)
}

// ---------------------------------------------------------------------
// sequential histories

#[derive(Clone, Debug)]
pub struct USeqScenario {
    pub build: UBuild,
    pub depth: usize,
    pub max_tasks: usize,
    pub close: bool,
    pub cancel: bool,
    /// Breadth-first reachability to closure (see explorer::explore_bfs).
    pub bfs: bool,
}

#[derive(Clone, Debug)]
enum SOp {
    StartGet,
    StartRemove,
    StartAdd,
    Poll(usize),
    Cancel(usize),
    TryGet,
    TimeoutGet0,
    TimeoutRemove0,
    TryAdd,
    TryRemove,
    Release(usize),
    Take(usize),
    Close,
    Stop,
}

enum TaskKind {
    Get { take: bool, task: Task<Result<Object<UObj>, PoolError>> },
    Add { id: usize, task: Task<Result<(), (UObj, PoolError)>> },
    Remove { task: Task<Result<UObj, PoolError>> },
}

struct UTask {
    who: usize,
    kind: TaskKind,
}

impl UTask {
    fn woken(&self) -> bool {
        match &self.kind {
            TaskKind::Get { task, .. } => task.woken(),
            TaskKind::Add { task, .. } => task.woken(),
            TaskKind::Remove { task } => task.woken(),
        }
    }
    fn is_get(&self) -> bool {
        matches!(self.kind, TaskKind::Get { .. } | TaskKind::Remove { .. })
    }
}

fn poll_utask(t: &mut UTask) -> bool {
    let who = t.who;
    u(|w| w.seq_actor = Some(who));
    let done = match &mut t.kind {
        TaskKind::Get { take, task } => match catch_unwind(AssertUnwindSafe(|| task.poll())) {
            Ok(None) => false,
            Ok(Some(r)) => {
                finish_get(who, r, false, *take);
                true
            }
            Err(p) => {
                task.cancel();
                u(|w| {
                    w.violate(&["C12"], "panic-in-get", format!("get panicked: {}", explorer::panic_msg(&p)));
                    w.end(who);
                });
                true
            }
        },
        TaskKind::Remove { task } => match catch_unwind(AssertUnwindSafe(|| task.poll())) {
            Ok(None) => false,
            Ok(Some(r)) => {
                finish_remove(who, r, false);
                true
            }
            Err(p) => {
                task.cancel();
                u(|w| {
                    w.violate(&["C12"], "panic-in-remove", format!("remove panicked: {}", explorer::panic_msg(&p)));
                    w.end(who);
                });
                true
            }
        },
        TaskKind::Add { id, task } => match catch_unwind(AssertUnwindSafe(|| task.poll())) {
            Ok(None) => false,
            Ok(Some(r)) => {
                finish_add(who, *id, r, false);
                true
            }
            Err(p) => {
                task.cancel();
                u(|w| {
                    w.violate(&["C12"], "panic-in-add", format!("add panicked: {}", explorer::panic_msg(&p)));
                    w.end(who);
                });
                true
            }
        },
    };
    u(|w| w.seq_actor = None);
    done
}

pub fn run_useq(sc: &USeqScenario) -> Outcome {
    sched::begin();
    init(0);
    let (pool, ms) = build(&sc.build);
    u(|w| w.ms = ms);
    let mut tasks: Vec<UTask> = Vec::new();
    let mut next_who = 1usize;
    let mut closed = false;
    let mut pruned = false;
    let mut steps = 0;
    while steps < sc.depth && u(|w| w.viol.is_empty()) {
        let mut ops: Vec<(SOp, Cost)> = Vec::new();
        for t in &tasks {
            if t.woken() {
                ops.push((SOp::Poll(t.who), Cost::FREE));
            }
        }
        let holders: Vec<usize> = u(|w| w.hands.iter().filter(|(_, v)| !v.is_empty()).map(|(k, _)| *k).collect());
        for h in &holders {
            ops.push((SOp::Release(*h), Cost::FREE));
        }
        ops.push((SOp::TryAdd, Cost::FREE));
        ops.push((SOp::TryGet, Cost::FREE));
        if tasks.len() < sc.max_tasks {
            ops.push((SOp::StartGet, Cost::FREE));
            ops.push((SOp::StartAdd, Cost::FREE));
            ops.push((SOp::StartRemove, Cost::FREE));
        }
        ops.push((SOp::TryRemove, Cost::FREE));
        ops.push((SOp::TimeoutGet0, Cost::FREE));
        ops.push((SOp::TimeoutRemove0, Cost::FREE));
        for h in &holders {
            ops.push((SOp::Take(*h), Cost::FREE));
        }
        if sc.close && !closed {
            ops.push((SOp::Close, Cost::FREE));
        }
        if sc.cancel {
            for t in &tasks {
                ops.push((SOp::Cancel(t.who), Cost::F));
            }
        }
        ops.push((SOp::Stop, Cost::FREE));
        let fresh_step = sc.bfs && explorer::past_root();
        let costs: Vec<Cost> = ops.iter().map(|o| if sc.bfs { Cost::FREE } else { o.1 }).collect();
        let k = choose(&costs);
        let op = ops[k].0.clone();
        trace!("op {:?}", op);
        explorer::count_step();
        steps += 1;
        let one_shot = |who: usize, op: UOp, pool: &Pool<UObj>| {
            u(|w| w.seq_actor = Some(who));
            exec(pool, &op, who);
            u(|w| w.seq_actor = None);
        };
        match op {
            SOp::Stop => break,
            SOp::StartGet => {
                let who = next_who;
                next_who += 1;
                u(|w| w.begin(who, UKind::Get, None));
                let p = pool.clone();
                let task = Task::new(async move { p.get().await });
                let mut t = UTask { who, kind: TaskKind::Get { take: false, task } };
                if !poll_utask(&mut t) {
                    tasks.push(t);
                }
            }
            SOp::StartRemove => {
                // the pool's own remove() (timeout_remove with the configured timeout)
                let who = next_who;
                next_who += 1;
                u(|w| w.begin(who, UKind::Remove, None));
                let p = pool.clone();
                let task = Task::new(async move { p.remove().await });
                let mut t = UTask { who, kind: TaskKind::Remove { task } };
                if !poll_utask(&mut t) {
                    tasks.push(t);
                }
            }
            SOp::StartAdd => {
                let who = next_who;
                next_who += 1;
                let o = u(|w| w.new_obj());
                let id = o.id;
                u(|w| w.begin(who, UKind::Add, Some(id)));
                let p = pool.clone();
                let task = Task::new(async move { p.add(o).await });
                let mut t = UTask { who, kind: TaskKind::Add { id, task } };
                if !poll_utask(&mut t) {
                    tasks.push(t);
                }
            }
            SOp::Poll(who) => {
                let i = tasks.iter().position(|t| t.who == who).unwrap();
                if poll_utask(&mut tasks[i]) {
                    tasks.remove(i);
                }
            }
            SOp::Cancel(who) => {
                let i = tasks.iter().position(|t| t.who == who).unwrap();
                let t = tasks.remove(i);
                u(|w| w.seq_actor = Some(who));
                match t.kind {
                    TaskKind::Get { mut task, .. } => task.cancel(),
                    TaskKind::Remove { mut task } => task.cancel(),
                    TaskKind::Add { id, mut task } => {
                        u(|w| {
                            if matches!(w.objs[id].loc, ULoc::Adding(_)) {
                                w.objs[id].loc = ULoc::Back;
                            }
                        });
                        task.cancel();
                    }
                }
                u(|w| {
                    w.seq_actor = None;
                    w.end(who);
                });
            }
            SOp::TryGet => {
                let who = next_who;
                next_who += 1;
                one_shot(who, UOp::TryGet, &pool)
            }
            SOp::TimeoutGet0 => {
                let who = next_who;
                next_who += 1;
                one_shot(who, UOp::TimeoutGet0, &pool)
            }
            SOp::TimeoutRemove0 => {
                let who = next_who;
                next_who += 1;
                one_shot(who, UOp::TimeoutRemove0, &pool)
            }
            SOp::TryAdd => one_shot(900, UOp::TryAdd, &pool),
            SOp::TryRemove => one_shot(900, UOp::TryRemove, &pool),
            SOp::Release(who) => one_shot(who, UOp::Release, &pool),
            SOp::Take(who) => one_shot(who, UOp::Take, &pool),
            SOp::Close => {
                closed = true;
                one_shot(900, UOp::Close, &pool);
                if !pool.is_closed() {
                    u(|w| w.violate(&["C12"], "is-closed-false", "is_closed() is false after close()".into()));
                }
            }
        }
        if u(|w| w.viol.is_empty()) {
            let st = pool.status();
            let any_woken = tasks.iter().any(|t| t.woken());
            let g = tasks.iter().filter(|t| t.is_get()).count();
            let a = tasks.len() - g;
            u(|w| {
                plausible(w, &st);
                if !any_woken {
                    at_rest(w, &st, g, a, "at rest");
                }
            });
            let mut h = std::collections::hash_map::DefaultHasher::new();
            fingerprint(&pool).hash(&mut h);
            for t in &tasks {
                (t.who, t.woken(), t.is_get()).hash(&mut h);
            }
            note_state(h.finish());
        }
        if fresh_step {
            if u(|w| w.viol.is_empty()) {
                // canonical state: pool counters, how many objects are where (per
                // holder in creation order), every pending call in creation order
                let mut h = std::collections::hash_map::DefaultHasher::new();
                pool.verif_snapshot().hash(&mut h);
                u(|w| {
                    (w.queued(), w.adding(), w.close_begun, w.close_returned).hash(&mut h);
                    for (_who, objs) in w.hands.iter() {
                        if !objs.is_empty() {
                            objs.len().hash(&mut h);
                        }
                    }
                });
                for t in &tasks {
                    (t.woken(), t.is_get(), matches!(t.kind, TaskKind::Get { take: true, .. } | TaskKind::Remove { .. })).hash(&mut h);
                }
                closed.hash(&mut h);
                let _ = explorer::bfs_visit(h.finish());
                pruned = true;
            }
            break;
        }
    }
    if pruned {
        for t in tasks.drain(..) {
            let who = t.who;
            u(|w| w.seq_actor = Some(who));
            match t.kind {
                TaskKind::Get { mut task, .. } => task.cancel(),
                    TaskKind::Remove { mut task } => task.cancel(),
                TaskKind::Add { id, mut task } => {
                    u(|w| {
                        if matches!(w.objs[id].loc, ULoc::Adding(_)) {
                            w.objs[id].loc = ULoc::Back;
                        }
                    });
                    task.cancel();
                }
            }
            u(|w| {
                w.seq_actor = None;
                w.end(who);
            });
        }
        let whos: Vec<usize> = u(|w| w.hands.keys().copied().collect());
        for who in whos {
            while u_release(who) {}
        }
        u(|w| {
            w.viol.clear();
            w.pool_dropping = true;
        });
        drop(pool);
        let mut world = U.with(|c| c.borrow_mut().take()).unwrap();
        let back = std::mem::take(&mut world.back);
        let hands = std::mem::take(&mut world.hands);
        drop(world);
        drop(hands);
        drop(back);
        sched::end();
        return Outcome { obs: 0, violations: vec![] };
    }
    // abandon what is pending
    for t in tasks.drain(..) {
        let who = t.who;
        u(|w| w.seq_actor = Some(who));
        match t.kind {
            TaskKind::Get { mut task, .. } => task.cancel(),
                    TaskKind::Remove { mut task } => task.cancel(),
            TaskKind::Add { id, mut task } => {
                u(|w| {
                    if matches!(w.objs[id].loc, ULoc::Adding(_)) {
                        w.objs[id].loc = ULoc::Back;
                    }
                });
                task.cancel();
            }
        }
        u(|w| {
            w.seq_actor = None;
            w.end(who);
        });
    }
    finish(pool, None, 0)
}
