//! C19: redis configs are unambiguous; conversions and serialisation are
//! lossless. Exhaustive products of configuration values.

use std::collections::{BTreeSet, HashMap};
use std::hash::{Hash, Hasher};
use std::net::TcpListener;
use std::panic::{catch_unwind, AssertUnwindSafe};
use std::path::PathBuf;
use std::sync::{Mutex, OnceLock};
use std::time::Duration;

use deadpool::managed::{PoolConfig, QueueMode, Timeouts};
use deadpool_redis::{ConfigError, ConnectionAddr, ConnectionInfo, ProtocolVersion, RedisConnectionInfo, Runtime};
use dpmc::explorer::{self, choose_free, note_state, Outcome, Violation};
use dpmc::trace;

fn bad(v: &mut Vec<Violation>, key: &str, msg: String) {
    if !v.iter().any(|x| x.key == key) {
        v.push(Violation { property: "C19".into(), key: key.into(), msg });
    }
}

// ------------------------------------------------------------------ dialling

const PORTS: [u16; 5] = [6379, 26379, 7101, 7102, 7103];

static DIALLED: Mutex<Vec<u16>> = Mutex::new(Vec::new());
static LISTENERS: OnceLock<Result<Vec<(u16, TcpListener)>, String>> = OnceLock::new();

/// Binds non-blocking listeners on every candidate address once per process.
/// Nobody accepts in the background: the harness thread itself accepts (and
/// immediately closes) pending connections - from a helper task on the same
/// current-thread runtime while get() runs, and once more after the runtime
/// has been dropped - so every dial is attributed to the execution that made
/// it, independent of timing.
pub fn ensure_listeners() -> Result<(), String> {
    LISTENERS
        .get_or_init(|| {
            let mut v = Vec::new();
            for p in PORTS {
                let l = TcpListener::bind(("127.0.0.1", p)).map_err(|e| format!("cannot bind 127.0.0.1:{}: {}", p, e))?;
                l.set_nonblocking(true).map_err(|e| e.to_string())?;
                v.push((p, l));
            }
            Ok(v)
        })
        .as_ref()
        .map(|_| ())
        .map_err(|e| e.clone())
}

/// Accepts and closes everything that is pending; returns how many.
fn drain() -> usize {
    let mut n = 0;
    if let Some(Ok(ls)) = LISTENERS.get() {
        for (p, l) in ls {
            while let Ok((s, _)) = l.accept() {
                DIALLED.lock().unwrap().push(*p);
                drop(s);
                n += 1;
            }
        }
    }
    n
}

async fn acceptor() {
    loop {
        drain();
        tokio::time::sleep(Duration::from_millis(1)).await;
    }
}

/// Runs one get() attempt with the acceptor task alongside.
fn attempt<F: std::future::Future<Output = ()>>(rt: &tokio::runtime::Runtime, f: F) {
    rt.block_on(async {
        let acc = tokio::spawn(acceptor());
        f.await;
        acc.abort();
    });
    drain();
}

fn ci(port: u16) -> ConnectionInfo {
    ConnectionInfo { addr: ConnectionAddr::Tcp("127.0.0.1".into(), port), redis: RedisConnectionInfo::default() }
}

fn pool_cfg() -> PoolConfig {
    PoolConfig {
        max_size: 1,
        timeouts: Timeouts { wait: Some(Duration::from_secs(2)), create: Some(Duration::from_secs(2)), recycle: Some(Duration::from_secs(2)) },
        queue_mode: QueueMode::Fifo,
    }
}

/// Flavour x url(s) x connection(s); single-threaded (records are process-wide).
pub fn sweep_flavours() -> Outcome {
    let mut viol = Vec::new();
    if let Err(e) = ensure_listeners() {
        return Outcome { obs: 0, violations: vec![Violation { property: "MACHINERY".into(), key: "listeners".into(), msg: e }] };
    }
    let flavour = choose_free(3);
    // urls: none / one / several / malformed / empty list ; connections: none / one / several / empty list
    let u = choose_free(6);
    let c = choose_free(4);
    explorer::count_step();
    let urls: Option<Vec<String>> = match u {
        0 => None,
        1 => Some(vec!["redis://127.0.0.1:7101".into()]),
        2 => Some(vec!["redis://127.0.0.1:7101".into(), "redis://127.0.0.1:7102/".into()]),
        3 => Some(vec!["redis://127.0.0.1:notaport".into()]),
        4 => Some(vec![]),
        // a malformed url in the middle of a list
        _ => Some(vec!["redis://127.0.0.1:7101".into(), "redis://127.0.0.1:notaport".into(), "redis://127.0.0.1:7102".into()]),
    };
    let conns: Option<Vec<ConnectionInfo>> = match c {
        0 => None,
        1 => Some(vec![ci(7103)]),
        2 => Some(vec![ci(7103), ci(7102)]),
        _ => Some(vec![]),
    };
    // with neither named: the struct literal with both fields None, or the
    // flavour's `Config::default()` (which may itself name the local server)
    let from_default = u == 0 && c == 0 && choose_free(2) == 1;
    if flavour == 0 && (u == 2 || c == 2 || u == 4 || u == 5 || c == 3) {
        // the standalone config names a single url / connection
        return Outcome { obs: 0, violations: vec![] };
    }
    trace!("flavour {} urls {:?} connections {:?}", flavour, urls, conns.as_ref().map(|v| v.len()));
    drain();
    DIALLED.lock().unwrap().clear();
    let rt = tokio::runtime::Builder::new_current_thread().enable_all().build().expect("runtime");
    // Result: Err(kind) from builder, or Ok(()) after one get() attempt
    let built: Result<Result<(), String>, Box<dyn std::any::Any + Send>> = catch_unwind(AssertUnwindSafe(|| match flavour {
        0 => {
            let cfg = if from_default {
                deadpool_redis::Config { pool: Some(pool_cfg()), ..Default::default() }
            } else {
                deadpool_redis::Config { url: urls.clone().map(|v| v[0].clone()), connection: conns.clone().map(|v| v[0].clone()), pool: Some(pool_cfg()) }
            };
            match cfg.builder() {
                Err(ConfigError::UrlAndConnectionSpecified) => Err("both".to_string()),
                Err(ConfigError::Redis(_)) => Err("redis".to_string()),
                Ok(b) => {
                    let pool = b.runtime(Runtime::Tokio1).build().map_err(|e| format!("build:{}", e))?;
                    attempt(&rt, async {
                        let _ = pool.get().await;
                    });
                    Ok(())
                }
            }
        }
        1 => {
            let cfg = if from_default {
                deadpool_redis::cluster::Config { pool: Some(pool_cfg()), ..Default::default() }
            } else {
                deadpool_redis::cluster::Config { urls: urls.clone(), connections: conns.clone(), pool: Some(pool_cfg()), read_from_replicas: false }
            };
            match cfg.builder() {
                Err(ConfigError::UrlAndConnectionSpecified) => Err("both".to_string()),
                Err(ConfigError::Redis(_)) => Err("redis".to_string()),
                Ok(b) => {
                    let pool = b.runtime(Runtime::Tokio1).build().map_err(|e| format!("build:{}", e))?;
                    attempt(&rt, async {
                        let _ = pool.get().await;
                    });
                    Ok(())
                }
            }
        }
        _ => {
            let cfg = if from_default {
                deadpool_redis::sentinel::Config { pool: Some(pool_cfg()), ..Default::default() }
            } else {
                deadpool_redis::sentinel::Config {
                    urls: urls.clone(),
                    connections: conns.clone(),
                    pool: Some(pool_cfg()),
                    master_name: "mymaster".into(),
                    server_type: deadpool_redis::sentinel::SentinelServerType::Master,
                    node_connection_info: None,
                }
            };
            match cfg.builder() {
                Err(ConfigError::UrlAndConnectionSpecified) => Err("both".to_string()),
                Err(ConfigError::Redis(_)) => Err("redis".to_string()),
                Ok(b) => {
                    let pool = b.runtime(Runtime::Tokio1).build().map_err(|e| format!("build:{}", e))?;
                    attempt(&rt, async {
                        let _ = pool.get().await;
                    });
                    Ok(())
                }
            }
        }
    }));
    drop(rt);
    // connections that completed their handshake but were not accepted yet
    drain();
    let dialled: BTreeSet<u16> = DIALLED.lock().unwrap().iter().copied().collect();
    let named: BTreeSet<u16> = match (&urls, &conns) {
        (Some(_), None) if u == 1 => [7101].into(),
        (Some(_), None) if u == 2 => [7101, 7102].into(),
        (None, Some(_)) if c == 1 => [7103].into(),
        (None, Some(_)) => [7103, 7102].into(),
        _ => BTreeSet::new(),
    };
    let desc = format!("flavour {}{} urls {:?} connections {:?}", ["standalone", "cluster", "sentinel"][flavour], if from_default { " Config::default()" } else { "" }, urls, conns.as_ref().map(|v| v.iter().map(|c| format!("{:?}", c.addr)).collect::<Vec<_>>()));
    let empty_list = u == 4 || c == 3;
    match built {
        Err(p) => bad(&mut viol, "panic", format!("{}: panicked: {}", desc, explorer::panic_msg(&p))),
        // A present but empty list: the statement does not say whether it
        // "names" servers.  Whatever the answer, nothing but the servers the
        // other list names (or, with none, the default local server) may be
        // dialled, and a malformed URL next to it is still an error.
        Ok(r) if empty_list => {
            let mut allowed: BTreeSet<u16> = match (u, c) {
                (1, 3) => [7101].into(),
                (2, 3) => [7101, 7102].into(),
                (4, 1) => [7103].into(),
                (4, 2) => [7103, 7102].into(),
                _ => BTreeSet::new(),
            };
            if allowed.is_empty() {
                allowed = if flavour == 2 { [6379, 26379].into() } else { [6379].into() };
            }
            if (u == 3 || u == 5) && r == Ok(()) {
                bad(&mut viol, "malformed-url-accepted", format!("{}: expected a configuration error, got {:?}", desc, r));
            }
            if !dialled.is_subset(&allowed) {
                bad(&mut viol, "wrong-servers-used", format!("{}: dialled {:?}, at most {:?} are named", desc, dialled, allowed));
            }
            if r.is_err() && !dialled.is_empty() {
                bad(&mut viol, "rejected-config-dialled", format!("{}: rejected with {:?} but dialled {:?}", desc, r, dialled));
            }
        }
        Ok(r) => match (urls.is_some(), conns.is_some()) {
            (true, true) => {
                if r != Err("both".to_string()) {
                    bad(&mut viol, "ambiguous-config-accepted", format!("{}: expected UrlAndConnectionSpecified, got {:?}", desc, r));
                }
                if !dialled.is_empty() {
                    bad(&mut viol, "ambiguous-config-dialled", format!("{}: dialled {:?}", desc, dialled));
                }
            }
            (true, false) if u == 3 || u == 5 => {
                if r != Err("redis".to_string()) {
                    bad(&mut viol, "malformed-url-accepted", format!("{}: expected a configuration error, got {:?}", desc, r));
                }
            }
            (false, false) => {
                // the default local server: 6379, and for the sentinel flavour
                // the local sentinel on 26379 - a sentinel config with both
                // fields None may fall back to either, its Default names the
                // sentinel port
                let allowed: BTreeSet<u16> = match (flavour, from_default) {
                    (2, true) => [26379].into(),
                    (2, false) => [6379, 26379].into(),
                    _ => [6379].into(),
                };
                if r != Ok(()) {
                    bad(&mut viol, "default-config-rejected", format!("{}: {:?}", desc, r));
                } else if dialled.is_empty() || !dialled.is_subset(&allowed) {
                    bad(&mut viol, "default-server-not-used", format!("{}: dialled {:?}, the default local server is {:?}", desc, dialled, allowed));
                }
            }
            _ => {
                if r != Ok(()) {
                    bad(&mut viol, "valid-config-rejected", format!("{}: {:?}", desc, r));
                } else if dialled.is_empty() || !dialled.is_subset(&named) {
                    bad(&mut viol, "wrong-servers-used", format!("{}: dialled {:?}, named {:?}", desc, dialled, named));
                } else if dialled != named {
                    // none of the listeners answers, so a client that was given
                    // every named server has tried every one of them before get() fails
                    bad(&mut viol, "named-server-not-used", format!("{}: dialled only {:?} of the named {:?} although none of them answered", desc, dialled, named));
                }
            }
        },
    }
    let mut h = std::collections::hash_map::DefaultHasher::new();
    (flavour, u, c, from_default, &dialled).hash(&mut h);
    note_state(h.finish());
    Outcome { obs: h.finish(), violations: viol }
}

// ------------------------------------------------------------------ conversions

fn addr(i: usize) -> ConnectionAddr {
    match i {
        0 => ConnectionAddr::Tcp("h.example".into(), 6380),
        1 => ConnectionAddr::Tcp("".into(), 0),
        2 => ConnectionAddr::TcpTls { host: "tls.example".into(), port: 6381, insecure: false },
        3 => ConnectionAddr::TcpTls { host: "tls.example".into(), port: u16::MAX, insecure: true },
        4 => ConnectionAddr::Unix(PathBuf::from("/run/redis/üñí.sock")),
        5 => ConnectionAddr::Unix(PathBuf::from("")),
        // hosts that contain what elsewhere separates host and port, or scheme
        // and host: bare IPv6 literals (as the redis crate's url parser produces
        // them), a literal ending in a decimal group, IPv4, and odd strings
        6 => ConnectionAddr::Tcp("::1".into(), 6379),
        7 => ConnectionAddr::TcpTls { host: "2001:db8::10:6380".into(), port: 6380, insecure: false },
        8 => ConnectionAddr::Tcp("10.0.0.7".into(), 1),
        9 => ConnectionAddr::Tcp("[::1]:7000".into(), 6379),
        10 => ConnectionAddr::Tcp("redis://h.example/3".into(), 6379),
        _ => ConnectionAddr::TcpTls { host: "h.example:6390".into(), port: 6379, insecure: true },
    }
}
const ADDRS: usize = 12;

pub fn sweep_conversions() -> Outcome {
    let mut viol = Vec::new();
    let a = choose_free(ADDRS);
    let db = [0i64, 1, -1, i64::MAX][choose_free(4)];
    let opt = |i: usize| [None, Some(String::new()), Some("väl".to_string())][i].clone();
    let username = opt(choose_free(3));
    let password = opt(choose_free(3));
    let protocol = [ProtocolVersion::RESP2, ProtocolVersion::RESP3][choose_free(2)];
    explorer::count_step();
    let ours = ConnectionInfo { addr: addr(a), redis: RedisConnectionInfo { db, username: username.clone(), password: password.clone(), protocol } };
    let r = catch_unwind(AssertUnwindSafe(|| {
        let theirs: redis::ConnectionInfo = ours.clone().into();
        let back: ConnectionInfo = theirs.clone().into();
        let again: redis::ConnectionInfo = back.clone().into();
        (format!("{:?}", theirs), format!("{:?}", back), format!("{:?}", again), theirs)
    }));
    match r {
        Err(p) => bad(&mut viol, "conversion-panic", format!("conversion of {:?} panicked: {}", ours, explorer::panic_msg(&p))),
        Ok((theirs_s, back_s, again_s, theirs)) => {
            if back_s != format!("{:?}", ours) {
                bad(&mut viol, "round-trip-ours", format!("{:?} -> redis -> {} ", ours, back_s));
            }
            if again_s != theirs_s {
                bad(&mut viol, "round-trip-theirs", format!("{} -> deadpool -> {}", theirs_s, again_s));
            }
            // field-wise against the redis crate's value
            let addr_ok = match (&ours.addr, &theirs.addr) {
                (ConnectionAddr::Tcp(h, p), redis::ConnectionAddr::Tcp(h2, p2)) => h == h2 && p == p2,
                (ConnectionAddr::TcpTls { host, port, insecure }, redis::ConnectionAddr::TcpTls { host: h2, port: p2, insecure: i2, .. }) => host == h2 && port == p2 && insecure == i2,
                (ConnectionAddr::Unix(p), redis::ConnectionAddr::Unix(p2)) => p == p2,
                _ => false,
            };
            let proto_ok = matches!((protocol, theirs.redis.protocol), (ProtocolVersion::RESP2, redis::ProtocolVersion::RESP2) | (ProtocolVersion::RESP3, redis::ProtocolVersion::RESP3));
            if !addr_ok || theirs.redis.db != db || theirs.redis.username != username || theirs.redis.password != password || !proto_ok {
                bad(&mut viol, "field-lost", format!("{:?} became {}", ours, theirs_s));
            }
        }
    }
    // sentinel node connection info
    let tls = [None, Some(deadpool_redis::sentinel::TlsMode::Secure), Some(deadpool_redis::sentinel::TlsMode::Insecure)][choose_free(3)];
    let with_info = choose_free(2) == 1;
    let node = deadpool_redis::sentinel::SentinelNodeConnectionInfo { tls_mode: tls, redis_connection_info: if with_info { Some(ours.redis.clone()) } else { None } };
    let r = catch_unwind(AssertUnwindSafe(|| {
        let theirs: redis::sentinel::SentinelNodeConnectionInfo = node.clone().into();
        let back: deadpool_redis::sentinel::SentinelNodeConnectionInfo = theirs.clone().into();
        (format!("{:?}", back), theirs)
    }));
    match r {
        Err(p) => bad(&mut viol, "conversion-panic", format!("sentinel node info conversion panicked: {}", explorer::panic_msg(&p))),
        Ok((back_s, theirs)) => {
            if back_s != format!("{:?}", node) {
                bad(&mut viol, "round-trip-node-info", format!("{:?} -> redis -> {}", node, back_s));
            }
            let tls_ok = matches!((tls, theirs.tls_mode), (None, None) | (Some(deadpool_redis::sentinel::TlsMode::Secure), Some(redis::TlsMode::Secure)) | (Some(deadpool_redis::sentinel::TlsMode::Insecure), Some(redis::TlsMode::Insecure)));
            let info_ok = match (&node.redis_connection_info, &theirs.redis_connection_info) {
                (None, None) => true,
                (Some(a), Some(b)) => a.db == b.db && a.username == b.username && a.password == b.password,
                _ => false,
            };
            if !tls_ok || !info_ok {
                bad(&mut viol, "node-info-field-lost", format!("{:?} lost a field when converted to the redis crate's type", node));
            }
        }
    }
    let mut h = std::collections::hash_map::DefaultHasher::new();
    format!("{:?}{:?}", ours, node).hash(&mut h);
    note_state(h.finish());
    Outcome { obs: h.finish(), violations: viol }
}

// ------------------------------------------------------------------ serde

#[derive(Debug, serde::Serialize, serde::Deserialize)]
struct Wrapper {
    pool: PoolConfig,
}

fn dur(i: usize) -> Option<Duration> {
    // ... and values a detour through f64 does not preserve (2^53 + 1, i64::MAX)
    const SECS: [u64; 6] = [0, 1, u32::MAX as u64, u64::MAX, (1u64 << 53) + 1, i64::MAX as u64];
    const NANOS: [u32; 3] = [0, 1, 999_999_999];
    if i == 0 {
        None
    } else {
        let k = i - 1;
        Some(Duration::new(SECS[k / 3], NANOS[k % 3]))
    }
}

fn same(a: &PoolConfig, b: &PoolConfig) -> bool {
    a.max_size == b.max_size
        && a.timeouts.wait == b.timeouts.wait
        && a.timeouts.create == b.timeouts.create
        && a.timeouts.recycle == b.timeouts.recycle
        && matches!((a.queue_mode, b.queue_mode), (QueueMode::Fifo, QueueMode::Fifo) | (QueueMode::Lifo, QueueMode::Lifo))
}

pub fn sweep_serde() -> Outcome {
    let mut viol = Vec::new();
    let max_size = [0usize, 1, 16, usize::MAX][choose_free(4)];
    let wait = dur(choose_free(19));
    let create = dur(choose_free(19));
    let recycle = dur(choose_free(19));
    let queue_mode = [QueueMode::Fifo, QueueMode::Lifo][choose_free(2)];
    explorer::count_step();
    let pc = PoolConfig { max_size, timeouts: Timeouts { wait, create, recycle }, queue_mode };
    // typed source: serde_json
    match serde_json::to_string(&Wrapper { pool: pc }) {
        Err(e) => bad(&mut viol, "serialise-failed", format!("{:?}: {}", pc, e)),
        Ok(s) => match serde_json::from_str::<Wrapper>(&s) {
            Err(e) => bad(&mut viol, "json-round-trip-failed", format!("{:?} -> {} -> {}", pc, s, e)),
            Ok(wr) => {
                if !same(&wr.pool, &pc) {
                    bad(&mut viol, "json-round-trip-changed", format!("{:?} -> {} -> {:?}", pc, s, wr.pool));
                }
            }
        },
    }
    // string-typed (environment style) source through the `config` crate
    let mut env: HashMap<String, String> = HashMap::new();
    env.insert("POOL__MAX_SIZE".into(), max_size.to_string());
    env.insert("POOL__QUEUE_MODE".into(), format!("{:?}", queue_mode));
    for (name, d) in [("WAIT", wait), ("CREATE", create), ("RECYCLE", recycle)] {
        if let Some(d) = d {
            env.insert(format!("POOL__TIMEOUTS__{}__SECS", name), d.as_secs().to_string());
            env.insert(format!("POOL__TIMEOUTS__{}__NANOS", name), d.subsec_nanos().to_string());
        }
    }
    let built = config::Config::builder().add_source(config::Environment::default().separator("__").source(Some(env.clone()))).build();
    match built.and_then(|c| c.try_deserialize::<Wrapper>()) {
        Err(e) => bad(&mut viol, "env-source-failed", format!("{:?} from {:?}: {}", pc, env, e)),
        Ok(wr) => {
            if !same(&wr.pool, &pc) {
                bad(&mut viol, "env-source-changed", format!("{:?} from {:?} became {:?}", pc, env, wr.pool));
            }
        }
    }
    let mut h = std::collections::hash_map::DefaultHasher::new();
    format!("{:?}", pc).hash(&mut h);
    note_state(h.finish());
    Outcome { obs: h.finish(), violations: viol }
}

/// Omitted sections take the documented defaults.
pub fn sweep_defaults() -> Outcome {
    let mut viol = Vec::new();
    let which = choose_free(4);
    explorer::count_step();
    let (src, exp): (&str, PoolConfig) = match which {
        0 => (r#"{"pool": {"max_size": 5}}"#, PoolConfig { max_size: 5, timeouts: Timeouts { wait: None, create: None, recycle: None }, queue_mode: QueueMode::Fifo }),
        1 => (r#"{"pool": {"max_size": 5, "timeouts": {"wait": null, "create": {"secs": 1, "nanos": 2}, "recycle": null}}}"#, PoolConfig { max_size: 5, timeouts: Timeouts { wait: None, create: Some(Duration::new(1, 2)), recycle: None }, queue_mode: QueueMode::Fifo }),
        2 => (r#"{"pool": {"max_size": 7, "queue_mode": "Lifo"}}"#, PoolConfig { max_size: 7, timeouts: Timeouts { wait: None, create: None, recycle: None }, queue_mode: QueueMode::Lifo }),
        _ => (r#"{"pool": {"max_size": 0, "timeouts": {"wait": null, "create": null, "recycle": null}, "queue_mode": "Fifo"}}"#, PoolConfig { max_size: 0, timeouts: Timeouts { wait: None, create: None, recycle: None }, queue_mode: QueueMode::Fifo }),
    };
    match serde_json::from_str::<Wrapper>(src) {
        Err(e) => bad(&mut viol, "defaults-rejected", format!("{} -> {}", src, e)),
        Ok(wr) => {
            if !same(&wr.pool, &exp) {
                bad(&mut viol, "wrong-defaults", format!("{} -> {:?}, documented {:?}", src, wr.pool, exp));
            }
        }
    }
    // redis Config sections: omitted pool, default connection
    let d = deadpool_redis::Config::default();
    if d.url.is_some() || d.pool.is_some() || !matches!(d.connection.as_ref().map(|c| &c.addr), Some(ConnectionAddr::Tcp(h, 6379)) if h == "127.0.0.1") {
        bad(&mut viol, "redis-default-config", format!("Config::default() = {:?}", d));
    }
    let pd = PoolConfig::default();
    // documented: no timeouts, Fifo, max_size = physical cpu count * 4
    let cpus4 = num_cpus::get_physical() * 4;
    if pd.timeouts.wait.is_some() || pd.timeouts.create.is_some() || pd.timeouts.recycle.is_some() || !matches!(pd.queue_mode, QueueMode::Fifo) || pd.max_size != cpus4 {
        bad(&mut viol, "pool-default-config", format!("PoolConfig::default() = {:?}, documented: no timeouts, Fifo, max_size {} (physical cpus * 4)", pd, cpus4));
    }
    let mut h = std::collections::hash_map::DefaultHasher::new();
    which.hash(&mut h);
    note_state(h.finish());
    Outcome { obs: h.finish(), violations: viol }
}
