//! dpmc-redis: checks C17 (scripted RESP server) and C19 (configs, conversions, serde).
mod c17;
mod c19;

use dpmc::report::{parse_args, run_check, CheckSpec, Scenario, Tier};
use serde_json::json;

fn spec_for(prop: &str, tier: Tier) -> Option<CheckSpec> {
    let mut scenarios = Vec::new();
    let (rule, assumptions): (String, Vec<String>);
    match prop {
        "C17" => {
            scenarios = c17::scenarios(tier);
            rule = "every history (depth bound) of pool operations against a scripted RESP2 server; every scripted answer to the recycle PING; distinct = distinct operation log".into();
            assumptions = c17::assumptions();
        }
        "C19" => {
            let mut s = Scenario::new("flavours-dialled", "redis / cluster / sentinel Config x url(s) in {none, one, several, malformed} x connection(s) in {none, one, several}; which servers are used is observed by loopback listeners on every candidate address including the defaults", 0, 0, c19::sweep_flavours);
            s.threads = Some(1);
            scenarios.push(s);
            scenarios.push(Scenario::new("conversions", "6 ConnectionAddr values x db in {0,1,-1,i64::MAX} x username/password in {none, empty, non-ascii} x both protocols, there and back in both directions; sentinel node info likewise", 0, 0, c19::sweep_conversions));
            scenarios.push(Scenario::new("serde-round-trip", "PoolConfig x max_size in {0,1,16,usize::MAX} x each timeout in {none} + secs {0,1,u32::MAX,u64::MAX} x nanos {0,1,999999999} x queue mode, through serde_json (typed) and the config crate fed with strings (environment style)", 0, 0, c19::sweep_serde));
            scenarios.push(Scenario::new("defaults", "omitted sections take the documented defaults", 0, 0, c19::sweep_defaults));
            rule = "exhaustive product of the listed value grids; distinct = distinct input/result".into();
            assumptions = vec![
                "the redis crate's Client / ClusterClient / SentinelClient dial exactly the addresses they were constructed with; a dial is observed by a loopback listener that records the accept before closing the connection".into(),
                "serde_json and the config crate are trusted as (de)serialisers".into(),
                "needs 127.0.0.1:6379, :26379, :7101-7103 to be free in the sandbox".into(),
            ];
        }
        _ => return None,
    }
    let _ = tier;
    Some(CheckSpec { property: prop.to_string(), level: "model_checking", rule, assumptions, bounds: json!({"tier": tier.name()}), scenarios })
}

fn main() {
    let args = parse_args();
    match spec_for(args.spec.as_deref().unwrap_or(&args.property), args.tier) {
        Some(mut s) => {
            s.property = args.property.clone();
            run_check(&args, s)
        }
        None => {
            eprintln!("unknown property {}", args.property);
            std::process::exit(2);
        }
    }
}
