//! C17: the standalone Redis pool hands out only clean, synchronised
//! connections. Histories against a scripted RESP2 server on a unix socket.

use std::cell::RefCell;
use std::collections::BTreeSet;
use std::hash::{Hash, Hasher};
use std::sync::atomic::{AtomicU64, Ordering};

use deadpool::managed::{PoolError, Timeouts};
use deadpool_redis::{Config, Connection, Pool, Runtime};
use dpmc::explorer::{self, choose_free, note_state, Outcome, Violation};
use dpmc::report::{Scenario, Tier};
use dpmc::trace;
use tokio::io::{AsyncReadExt, AsyncWriteExt, BufReader};
use tokio::net::{UnixListener, UnixStream};

#[derive(Clone, Copy, Debug, PartialEq, Eq, Hash)]
enum Answer {
    Correct,
    Stale,
    Wrong,
    Error,
    Close,
    /// a different value that a lenient comparison would accept: the echo
    /// with a leading zero (equal as a number, not as a value)
    NearMiss,
}

const ANSWERS: [Answer; 6] = [Answer::Correct, Answer::Stale, Answer::Wrong, Answer::Error, Answer::Close, Answer::NearMiss];

#[derive(Default)]
struct Conn {
    /// commands since the connection was last handed out (harness commands excluded)
    log: Vec<Vec<String>>,
    watching: bool,
    /// what the recycle check observed since the last hand-out
    last_ping_answer: Option<Answer>,
    doomed: bool,
    closed: bool,
}

#[derive(Default)]
struct World {
    conns: Vec<Conn>,
    viol: Vec<Violation>,
    log: Vec<String>,
    next_answer: Option<Answer>,
    pings: Vec<String>,
}

thread_local! {
    static W: RefCell<Option<World>> = const { RefCell::new(None) };
}

fn w<R>(f: impl FnOnce(&mut World) -> R) -> R {
    W.with(|c| f(c.borrow_mut().as_mut().expect("c17 world")))
}

fn bad(key: &str, msg: String) {
    w(|w| {
        if !w.viol.iter().any(|v| v.key == key) {
            w.viol.push(Violation { property: "C17".into(), key: key.into(), msg });
        }
    })
}

async fn read_line(s: &mut BufReader<UnixStream>) -> Option<String> {
    let mut v = Vec::new();
    loop {
        let mut b = [0u8; 1];
        if s.read_exact(&mut b).await.is_err() {
            return None;
        }
        if b[0] == b'\n' {
            if v.last() == Some(&b'\r') {
                v.pop();
            }
            return String::from_utf8(v).ok();
        }
        v.push(b[0]);
    }
}

async fn read_cmd(s: &mut BufReader<UnixStream>) -> Option<Vec<String>> {
    let l = read_line(s).await?;
    let n: usize = l.strip_prefix('*')?.parse().ok()?;
    let mut args = Vec::new();
    for _ in 0..n {
        let l = read_line(s).await?;
        let len: usize = l.strip_prefix('$')?.parse().ok()?;
        let mut buf = vec![0u8; len + 2];
        s.read_exact(&mut buf).await.ok()?;
        buf.truncate(len);
        args.push(String::from_utf8_lossy(&buf).to_string());
    }
    Some(args)
}

fn bulk(s: &str) -> Vec<u8> {
    format!("${}\r\n{}\r\n", s.len(), s).into_bytes()
}

async fn serve(s: UnixStream, id: usize) {
    // buffered: one recv per request instead of one per byte
    let mut s = BufReader::new(s);
    loop {
        let Some(cmd) = read_cmd(&mut s).await else { return };
        let name = cmd[0].to_ascii_uppercase();
        let reply: Vec<u8> = match name.as_str() {
            "DPMCID" => format!(":{}\r\n", id).into_bytes(),
            "CLIENT" | "SELECT" | "AUTH" | "HELLO" => b"+OK\r\n".to_vec(),
            "WATCH" => {
                w(|w| {
                    w.conns[id].watching = true;
                    w.conns[id].log.push(cmd.clone());
                });
                b"+OK\r\n".to_vec()
            }
            "UNWATCH" => {
                w(|w| {
                    w.conns[id].watching = false;
                    w.conns[id].log.push(cmd.clone());
                });
                b"+OK\r\n".to_vec()
            }
            "PING" => {
                let arg = cmd.get(1).cloned().unwrap_or_default();
                let mode = w(|w| {
                    w.conns[id].log.push(cmd.clone());
                    let m = w.next_answer.take().unwrap_or(Answer::Correct);
                    w.conns[id].last_ping_answer = Some(m);
                    if m != Answer::Correct {
                        w.conns[id].doomed = true;
                    }
                    m
                });
                let stale = w(|w| w.pings.last().cloned().unwrap_or_else(|| "stale".to_string()));
                w(|w| w.pings.push(arg.clone()));
                match mode {
                    Answer::Correct => bulk(&arg),
                    Answer::Stale => bulk(&stale),
                    Answer::Wrong => bulk("definitely-not-the-echo"),
                    Answer::NearMiss => bulk(&format!("0{}", arg)),
                    Answer::Error => b"-ERR scripted failure\r\n".to_vec(),
                    Answer::Close => {
                        w(|w| w.conns[id].closed = true);
                        return;
                    }
                }
            }
            _ => {
                w(|w| w.conns[id].log.push(cmd.clone()));
                b"+OK\r\n".to_vec()
            }
        };
        if s.write_all(&reply).await.is_err() {
            return;
        }
    }
}

static SOCK_SEQ: AtomicU64 = AtomicU64::new(0);

#[derive(Clone, Debug)]
pub struct C17Scenario {
    pub ms: usize,
    pub depth: usize,
}

pub fn run_c17(sc: &C17Scenario) -> Outcome {
    W.with(|c| *c.borrow_mut() = Some(World::default()));
    let rt = tokio::runtime::Builder::new_current_thread().enable_all().build().expect("runtime");
    let dir = std::env::temp_dir().join(format!("dpmc-redis-{}-{}", std::process::id(), SOCK_SEQ.fetch_add(1, Ordering::Relaxed)));
    std::fs::create_dir_all(&dir).expect("temp dir");
    let path = dir.join("r.sock");
    let obs = rt.block_on(run_inner(sc, &path));
    drop(rt);
    let _ = std::fs::remove_dir_all(&dir);
    let world = W.with(|c| c.borrow_mut().take()).unwrap();
    Outcome { obs, violations: world.viol }
}

async fn ident(c: &mut Connection) -> Option<usize> {
    let r: redis::RedisResult<i64> = redis::cmd("DPMCID").query_async(c).await;
    r.ok().map(|v| v as usize)
}

async fn run_inner(sc: &C17Scenario, path: &std::path::Path) -> u64 {
    let listener = UnixListener::bind(path).expect("bind unix socket");
    let accept = tokio::spawn(async move {
        loop {
            match listener.accept().await {
                Ok((s, _)) => {
                    let id = w(|w| {
                        w.conns.push(Conn::default());
                        w.conns.len() - 1
                    });
                    drop(tokio::spawn(serve(s, id)));
                }
                Err(_) => return,
            }
        }
    });
    let cfg = Config::from_url(format!("redis+unix://{}", path.display()));
    let pool: Pool = cfg.builder().expect("builder").max_size(sc.ms).runtime(Runtime::Tokio1).build().expect("build");
    let nb = Timeouts { wait: Some(std::time::Duration::ZERO), create: None, recycle: None };
    let mut held: Vec<(Connection, usize)> = Vec::new();
    let mut taken = Vec::new();
    let mut handed_before: BTreeSet<usize> = BTreeSet::new();
    for _ in 0..sc.depth {
        if !w(|w| w.viol.is_empty()) {
            break;
        }
        // 0.. get with answer k, then per held: return / take / watch, stop
        let mut ops: Vec<(u8, usize)> = Vec::new();
        if held.len() < sc.ms {
            for k in 0..ANSWERS.len() {
                ops.push((0, k));
            }
        }
        for j in 0..held.len() {
            ops.push((1, j));
            ops.push((2, j));
            ops.push((3, j));
        }
        if held.len() < sc.ms {
            // a caller that takes a connection and gives it back without sending anything
            ops.push((4, 0));
        }
        ops.push((9, 0));
        let (op, arg) = ops[choose_free(ops.len())];
        explorer::count_step();
        match op {
            9 => break,
            0 => {
                let ans = ANSWERS[arg];
                trace!("get (first recycle PING answered with {:?})", ans);
                w(|w| {
                    w.next_answer = Some(ans);
                    w.log.push(format!("get/{:?}", ans));
                });
                let conns_before = w(|w| w.conns.len());
                let pings_before = w(|w| w.pings.len());
                let size_before = pool.status().size;
                let r = pool.timeout_get(&nb).await;
                let consumed = w(|w| w.next_answer.take().is_none());
                match r {
                    Ok(mut c) => match ident(&mut c).await {
                        None => bad("handed-out-dead-connection", "get() returned a connection that does not answer".into()),
                        Some(id) => {
                            trace!("  -> connection {}", id);
                            let (doomed, watching, log, last) = w(|w| {
                                let c = &w.conns[id];
                                (c.doomed, c.watching, c.log.clone(), c.last_ping_answer)
                            });
                            if doomed {
                                bad("unsynchronised-connection-reissued", format!("connection {} whose PING was answered with {:?} was handed out", id, last));
                            }
                            if handed_before.contains(&id) && w(|w| w.pings.len()) == pings_before {
                                bad("reused-without-recycle-round-trip", format!("connection {} was handed out again without an UNWATCH + PING round trip during this get()", id));
                            }
                            if handed_before.contains(&id) {
                                // reused: exactly UNWATCH then PING n, fresh n, correct echo, no WATCH left
                                let names: Vec<String> = log.iter().map(|c| c[0].to_ascii_uppercase()).collect();
                                let tail: Vec<&str> = names.iter().rev().take(2).rev().map(|s| s.as_str()).collect();
                                if tail != ["UNWATCH", "PING"] {
                                    bad("recycle-commands", format!("before connection {} was reused the server saw {:?} (expected ... UNWATCH, PING n)", id, log));
                                }
                                if watching {
                                    bad("watch-state-leaked", format!("connection {} was handed out with WATCH state of its previous user", id));
                                }
                                if last != Some(Answer::Correct) {
                                    bad("reused-without-correct-echo", format!("connection {} reused although its PING was answered {:?}", id, last));
                                }
                                let n = log.last().and_then(|c| c.get(1).cloned()).unwrap_or_default();
                                let earlier = w(|w| w.pings.iter().filter(|p| **p == n).count());
                                if earlier > 1 {
                                    bad("ping-value-reused", format!("PING value {} was used more than once on this pool", n));
                                }
                            } else if consumed && ans != Answer::Correct {
                                // a fresh connection after a rejected one: a new connection must have been dialled
                                if w(|w| w.conns.len()) <= conns_before {
                                    bad("no-replacement-dialled", "an idle connection was rejected but no new connection was dialled".into());
                                }
                            }
                            w(|w| {
                                w.conns[id].log.clear();
                                w.conns[id].last_ping_answer = None;
                            });
                            handed_before.insert(id);
                            held.push((c, id));
                        }
                    },
                    Err(PoolError::Backend(e)) => {
                        trace!("  -> backend error {}", e);
                    }
                    Err(e) => bad("get-failed", format!("get() with a free slot failed: {:?}", e)),
                }
                w(|w| w.next_answer = None);
                let _ = size_before;
            }
            4 => {
                trace!("get and return without sending anything");
                w(|w| w.log.push("get-unused".into()));
                let conns_before = w(|w| w.conns.len());
                let r = pool.timeout_get(&nb).await;
                // a connection dialled by this call has been handed out once now
                // (it is not asked for its identity: that would be a command)
                for id in conns_before..w(|w| w.conns.len()) {
                    handed_before.insert(id);
                }
                match r {
                    Ok(c) => drop(c),
                    Err(PoolError::Backend(e)) => {
                        trace!("  -> backend error {}", e);
                    }
                    Err(e) => bad("get-failed", format!("get() with a free slot failed: {:?}", e)),
                }
            }
            1 => {
                let (c, id) = held.remove(arg);
                trace!("return connection {}", id);
                w(|w| w.log.push(format!("return {}", id)));
                drop(c);
            }
            2 => {
                let (c, id) = held.remove(arg);
                trace!("take connection {}", id);
                w(|w| w.log.push(format!("take {}", id)));
                let before = pool.status();
                let inner = Connection::take(c);
                let after = pool.status();
                if after.size + 1 != before.size {
                    bad("take-size", format!("Connection::take changed status().size from {} to {}", before.size, after.size));
                }
                w(|w| w.conns[id].doomed = true); // must never come back from the pool
                taken.push(inner);
                // the slot is free again: a new connection can be obtained at once
                match pool.timeout_get(&nb).await {
                    Ok(mut c2) => match ident(&mut c2).await {
                        Some(id2) => {
                            if id2 == id {
                                bad("taken-connection-reissued", format!("connection {} was taken but handed out again", id));
                            }
                            w(|w| {
                                w.conns[id2].log.clear();
                                w.conns[id2].last_ping_answer = None;
                            });
                            handed_before.insert(id2);
                            held.push((c2, id2));
                        }
                        None => bad("handed-out-dead-connection", "get() after take returned a dead connection".into()),
                    },
                    Err(e) => bad("slot-not-freed-by-take", format!("get() right after Connection::take failed: {:?}", e)),
                }
            }
            _ => {
                let (c, id) = &mut held[arg];
                trace!("user WATCH on connection {}", id);
                w(|w| w.log.push(format!("watch {}", id)));
                let r: redis::RedisResult<()> = redis::cmd("WATCH").arg("k").query_async(c).await;
                if r.is_err() {
                    bad("watch-failed", "WATCH on a handed-out connection failed".into());
                }
            }
        }
        let mut h = std::collections::hash_map::DefaultHasher::new();
        (held.iter().map(|x| x.1).collect::<Vec<_>>(), pool.status().size, pool.status().available).hash(&mut h);
        w(|w| {
            for c in &w.conns {
                (c.watching, c.doomed, c.closed, c.log.len()).hash(&mut h);
            }
        });
        note_state(h.finish());
    }
    drop(held);
    drop(taken);
    drop(pool);
    accept.abort();
    let mut h = std::collections::hash_map::DefaultHasher::new();
    w(|w| w.log.hash(&mut h));
    h.finish()
}

pub fn scenarios(tier: Tier) -> Vec<Scenario> {
    let thorough = tier == Tier::Thorough;
    let mut v = Vec::new();
    for ms in [1usize, 2] {
        let depth = match (thorough, ms) {
            (false, 1) => 5,
            (false, _) => 4,
            (true, 1) => 8,
            (true, _) => 7,
        };
        let sc = C17Scenario { ms, depth };
        v.push(Scenario::new(
            &format!("histories/ms{}", ms),
            "every history of get (first recycle PING answered with the right echo / a stale echo / a wrong value / -ERR / disconnect), return, Connection::take and a user WATCH, against a scripted RESP2 server on a unix socket",
            0,
            0,
            move || run_c17(&sc),
        ));
    }
    v
}

pub fn assumptions() -> Vec<String> {
    vec![
        "redis-rs 0.28 client is trusted; the scripted server answers +OK to connection set-up commands and speaks RESP2 only".into(),
        "real unix-domain sockets in a private temp directory on a current-thread tokio runtime; every step is a completed request/response so the kernel adds no observable nondeterminism".into(),
    ]
}
