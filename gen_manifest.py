#!/usr/bin/env python3
"""Regenerates MANIFEST.json from the table below (kept in one place so the
manifest is always schema-valid). Run after adding/removing a claimed check."""
import json, subprocess

HOOK_COMMITS = subprocess.run(["git", "-C", "/repo", "log", "--format=%H %s", "--grep=^verif hooks"],
                              capture_output=True, text=True).stdout.strip().splitlines()

# property -> (engine, technique, level text, level note)
CLAIMED = {}
NOT_BUILT = {}

def claim(pid, engine, technique, text, note, design):
    CLAIMED[pid] = dict(engine=engine, technique=technique, text=text, note=note, design=design)

exec(open("/verif/claims.py").read())

props = [json.loads(l)["id"] for l in open("/verif/properties.jsonl")]
checks = []
for pid in props:
    if pid not in CLAIMED:
        continue
    c = CLAIMED[pid]
    checks.append({
        "property_id": pid,
        "quick_cmd": "./check %s --tier quick" % pid,
        "thorough_cmd": "./check %s --tier thorough" % pid,
        "evidence_file": "/verif/evidence/%s.json" % pid,
        "replay_cmd_template": "./check %s --replay {path}" % pid,
        "engine": c["engine"],
        "level_claimed": {"category": "model_checking", "text": c["text"], "design_ref": c["design"]},
        "level_note": c["note"],
        "technique": c["technique"],
    })
na = [{"property_id": p, "reason": NOT_BUILT.get(p, "harness not built yet (work in progress, see DESIGN.md section 10); nothing is claimed for it")}
      for p in props if p not in CLAIMED]
m = {
    "version": 1,
    "setup_cmd": "cd /verif/dpmc && CARGO_NET_OFFLINE=true cargo build --release --offline --workspace && CARGO_NET_OFFLINE=true cargo test --release --offline -p dpmc",
    "hooks": {
        "guard": "--cfg deadpool_verif",
        "enable": "rustc cfg deadpool_verif, set by /verif/dpmc/.cargo/config.toml ([build] rustflags) for every harness build; target dir /verif/target-verif; /repo crates are path dependencies so checks rebuild from the working tree",
        "baseline_off_cmd": "/verif/baseline_off.sh",
        "source_commits": [l.split()[0] for l in HOOK_COMMITS],
        "add_only": True,
    },
    "engines": [
        {"name": "dpmc", "path": "/verif/dpmc/engine", "serves_properties": sorted(CLAIMED),
         "kind_free_text": "purpose-built stateless model checker: preemption- and fault-bounded exhaustive DFS over schedules, environment answers, cancellations and operation histories of the real deadpool code; actors are corosensei coroutines, scheduling points come from cfg-guarded shim types around the real std Mutex / atomics / tokio Semaphore"},
    ],
    "checks": checks,
    "not_applicable": na,
    "notes": "All checks are bounded exhaustive exploration of the real code (no sampling decides anything): depth-first over schedules / faults / histories within stated bounds, and breadth-first reachability to closure over canonical abstract states for the managed and unmanaged pool histories. Exit 2 of ./check is a machinery failure, never a verdict. Known findings and repaired defects: /verif/KNOWN_FINDINGS.json. Hook commits: three of them (75eb98e, 5f6f7d6, 02df3b1) revise lines that earlier hook commits had added; relative to the pinned tree the hook patches only add lines (every line deleted between the pinned tree and HEAD is deleted by a fix: commit - checked with git diff).",
}
json.dump(m, open("/verif/MANIFEST.json", "w"), indent=1)
print("claimed:", sorted(CLAIMED), "not claimed:", [x["property_id"] for x in na])
