#!/bin/sh
# Runs the repository's own test suite with the verification guard OFF and
# checks that every test of the stable baseline still passes.
set -u
cd /repo || exit 2
unset RUSTFLAGS
OUT=$(mktemp)
if command -v cargo-nextest >/dev/null 2>&1; then
  CARGO_NET_OFFLINE=true cargo nextest run --workspace --no-fail-fast --test-threads 8 --offline >"$OUT" 2>&1
else
  CARGO_NET_OFFLINE=true cargo test --workspace --no-fail-fast --offline >"$OUT" 2>&1
fi
python3 - "$OUT" <<'PY'
import json, re, sys
out = open(sys.argv[1], errors="replace").read()
base = json.load(open("/root/.vp/BASELINE.json"))["stable_pass"]
passed = set()
for m in re.finditer(r"^\s+PASS \[[^\]]*\]\s+(?:\(\s*\d+/\d+\)\s+)?(\S+)\s+(\S+)\s*$", out, re.M):
    passed.add(m.group(1) + "::" + m.group(2))
# cargo test fallback: count "test name ... ok" lines loosely
for m in re.finditer(r"^test (\S+) \.\.\. ok$", out, re.M):
    passed.add(m.group(1))
missing = [t for t in base if t not in passed and t.split("::", 2)[-1] not in passed]
print("baseline tests passing with guard off: %d/%d" % (len(base) - len(missing), len(base)))
for t in missing:
    print("MISSING", t)
sys.exit(1 if missing else 0)
PY
rc=$?
rm -f "$OUT"
exit $rc
